"""C13 - matching is sound and complete: success is never confused with emptiness; shape of match_single."""
from __future__ import annotations

import ast
import re

from ..core.pyfacts import PyRepo
from ..core.wiring import pattern_fields

LEVEL = 'other'

FALSY_SCALARS = {'int', 'str', 'bool', 'bytes', 'float'}
FALSY_CONTAINERS = ('dict', 'list', 'set', 'frozenset', 'Mapping', 'Sequence', 'Iterable', 'frozendict', 'InstantiationDict', 'Clause')
MATCH_API = {'match_single', 'match', 'matches', 'assert_matches', 'unwrap', 'extract', 'deconstruct'}
SCOPE = {'pattern', 'tautology', 'proofs.kore', 'proofs.definedness', 'proofs.propositional', 'proofs.substitution'}
# Optional values whose truthiness test is intended: (module, function, expression) -> reason
# keyed by the rename-stable text of the tested value and the testing construct (core/localkeys.py: names bound in the function masked)
INTENDED = {
    ('k.kore_convertion.language_semantics', 'count_simplifications', 'def:Pattern.unwrap(_) @ if _: for _ in _: _ += self.count_simplifications(_)'):
        '(`children`) no children and "not a constructor" are both "nothing to count"',
    ('pattern', 'match_single', 'expr:_ @ _ if _ else {}'): '(`extend`) an empty seed and no seed both start from the empty substitution',
    ('pattern', 'match_single', 'expr:_ @ _ or {}'): '(`extend`) an empty seed and no seed both start from the empty substitution',
}


def split_union(ann: str) -> list[str]:
    ann = ann.strip().strip('\'"')
    m = re.fullmatch(r'(?:typing\.)?Optional\[(.*)\]', ann)
    if m:
        return split_union(m.group(1)) + ['None']
    parts, depth, cur = [], 0, ''
    for ch in ann:
        if ch in '[(':
            depth += 1
        elif ch in '])':
            depth -= 1
        if ch == '|' and depth == 0:
            parts.append(cur.strip())
            cur = ''
        else:
            cur += ch
    parts.append(cur.strip())
    return [p for p in parts if p]


def classify(ann: str, py: PyRepo, module: str):
    """-> None if not Optional; else (falsy_capable: bool, description)"""
    parts = split_union(ann)
    if 'None' not in parts or len(parts) < 2:
        return None
    falsy = []
    for p in parts:
        if p == 'None':
            continue
        head = p.split('[')[0].split('.')[-1]
        if head in FALSY_SCALARS:
            falsy.append(p)
        elif head in FALSY_CONTAINERS:
            falsy.append(p)
        elif head == 'tuple':
            if '[' not in p or '...' in p or p.endswith('[()]'):
                falsy.append(p)
        else:
            ci = py.find_class(head, module)
            if ci is not None and any(m in ci.methods for m in ('__bool__', '__len__')):
                falsy.append(p)
    return (bool(falsy), ', '.join(falsy))


class FnScan(ast.NodeVisitor):
    def __init__(self):
        self.contexts: list[tuple[ast.expr, ast.AST]] = []

    def _ctx(self, e, node):
        if isinstance(e, ast.BoolOp):
            for v in e.values:
                self._ctx(v, node)
        elif isinstance(e, ast.UnaryOp) and isinstance(e.op, ast.Not):
            self._ctx(e.operand, node)
        else:
            self.contexts.append((e, node))

    def visit_If(self, n):
        self._ctx(n.test, n)
        self.generic_visit(n)

    def visit_While(self, n):
        self._ctx(n.test, n)
        self.generic_visit(n)

    def visit_IfExp(self, n):
        self._ctx(n.test, n)
        self.generic_visit(n)

    def visit_Assert(self, n):
        self._ctx(n.test, n)
        self.generic_visit(n)

    def visit_comprehension(self, n):
        for c in n.ifs:
            self._ctx(c, n)
        self.generic_visit(n)

    def visit_BoolOp(self, n):
        # a BoolOp used as a value (x = a and b): operands before the last are tested for truth
        for v in n.values[:-1]:
            self._ctx(v, n)
        self.generic_visit(n)


def single_defs(fn: ast.FunctionDef):
    defs: dict[str, list] = {}
    for n in ast.walk(fn):
        if isinstance(n, ast.Assign):
            for t in n.targets:
                if isinstance(t, ast.Name):
                    defs.setdefault(t.id, []).append(n.value)
                else:
                    for x in ast.walk(t):
                        if isinstance(x, ast.Name):
                            defs.setdefault(x.id, []).append(None)
        elif isinstance(n, ast.AnnAssign) and isinstance(n.target, ast.Name):
            defs.setdefault(n.target.id, []).append(('ann', ast.unparse(n.annotation), n.value))
        elif isinstance(n, ast.NamedExpr):
            defs.setdefault(n.target.id, []).append(n.value)
        elif isinstance(n, (ast.For, ast.comprehension)):
            for x in ast.walk(n.target):
                if isinstance(x, ast.Name):
                    defs.setdefault(x.id, []).append(None)
        elif isinstance(n, ast.AugAssign) and isinstance(n.target, ast.Name):
            defs.setdefault(n.target.id, []).append(None)
    return defs


def resolve_return_ann(py: PyRepo, module: str, ci, fn: ast.FunctionDef, call: ast.Call, nested: dict):
    """-> (annotation string, description of callee, extra) or None"""
    f = call.func
    if isinstance(f, ast.Name):
        if f.id in nested:
            g = nested[f.id]
            return (ast.unparse(g.returns) if g.returns else None, f.id, None)
        mi = py.modules[module]
        if f.id in mi.functions:
            g = mi.functions[f.id]
            return (ast.unparse(g.returns) if g.returns else None, f'{module}.{f.id}', None)
        if f.id in mi.imports:
            mod, orig = mi.imports[f.id]
            if mod in py.modules and orig in py.modules[mod].functions:
                g = py.modules[mod].functions[orig]
                return (ast.unparse(g.returns) if g.returns else None, f'{mod}.{orig}', None)
        return None
    if isinstance(f, ast.Attribute):
        recv = f.value
        cls = None
        recv_class_name = None
        if isinstance(recv, ast.Name):
            if recv.id in ('self', 'cls') and ci is not None:
                cls = ci
            else:
                c = py.find_class(recv.id, module)
                if c is not None:
                    cls = c
                    recv_class_name = c.name
                else:
                    # parameter with an annotated class
                    for a in fn.args.args:
                        if a.arg == recv.id and a.annotation is not None:
                            c = py.find_class(ast.unparse(a.annotation), module)
                            if c is not None:
                                cls = c
        if cls is None:
            return None
        hit = py.find_method(cls, f.attr)
        if hit is None:
            return None
        owner, g = hit
        return (ast.unparse(g.returns) if g.returns else None, f'{owner.name}.{f.attr}', recv_class_name)
    return None


def lint(ctx, py: PyRepo):
    n_sites = n_unresolved = 0
    for mname, mi in py.modules.items():
        fns = [(f.name, f, None) for f in mi.functions.values()]
        for c in mi.classes.values():
            fns += [(f'{c.name}.{f.name}', f, c) for f in c.methods.values()]
        for qn, fn, ci in fns:
            nested = {n.name: n for n in ast.walk(fn) if isinstance(n, ast.FunctionDef) and n is not fn}
            scans = [(qn, fn)] + [(f'{qn}.{n}', g) for n, g in nested.items()]
            for sqn, sfn in scans:
                if any(isinstance(n, ast.For) and isinstance(n.iter, (ast.Tuple, ast.List)) for n in ast.walk(sfn)):
                    # `for c in (A, B): c.deconstruct(x)`: the receiver class is known per iteration
                    from ..core.pyeval import unroll_constant_loops
                    sfn = unroll_constant_loops(sfn)
                sc = FnScan()
                for st in sfn.body:
                    sc.visit(st)
                defs = single_defs(sfn)
                params = {a.arg: (ast.unparse(a.annotation) if a.annotation else None)
                          for a in sfn.args.args + sfn.args.kwonlyargs}
                for e, node in sc.contexts:
                    ann = who = extra = None
                    label = ast.unparse(e)
                    call = None
                    if isinstance(e, ast.NamedExpr) and isinstance(e.value, ast.Call):
                        call = e.value
                        label = e.target.id
                    elif isinstance(e, ast.Call):
                        call = e
                    elif isinstance(e, ast.Name):
                        d = defs.get(e.id, [])
                        if len(d) == 1 and isinstance(d[0], ast.Call):
                            call = d[0]
                        elif len(d) == 1 and isinstance(d[0], tuple) and d[0][0] == 'ann':
                            ann, who = d[0][1], f'annotated local {e.id}'
                        elif not d and params.get(e.id):
                            ann, who = params[e.id], f'parameter {e.id}'
                    if call is not None:
                        r = resolve_return_ann(py, mname, ci, sfn, call, nested)
                        if r is None:
                            n_unresolved += 1
                            continue
                        ann, who, extra = r
                    if not ann:
                        continue
                    # the property is about matching / destructuring results: values produced by that API anywhere in the
                    # package, and Optional parameters / locals of the modules that implement it
                    api = who is not None and (who.split('.')[-1] in MATCH_API or who.split('.')[-1].startswith('deconstruct'))
                    if not api and mname not in SCOPE:
                        continue
                    cl = classify(ann, py, mname)
                    if cl is None:
                        continue
                    falsy, what = cl
                    # Pattern.unwrap on a known class: the tuple has one entry per pattern-typed field
                    if falsy and who and who.endswith('.unwrap') and extra:
                        try:
                            if len(pattern_fields(py, extra)) >= 1:
                                falsy, what = False, ''
                        except Exception:  # noqa: BLE001
                            pass
                    n_sites += 1
                    short = sqn.split('.')[-1] if '.' in sqn else sqn
                    from ..core.localkeys import masked, stable_key
                    key = (mname, short, stable_key(sfn, e.target if isinstance(e, ast.NamedExpr) else e) + ' @ ' + ' '.join(masked(sfn, node).split()))
                    if key in INTENDED and falsy:
                        ctx.ob('optional-truthiness', f'{mname}.{sqn}:{label}', True,
                               f'intended emptiness test: {INTENDED[key]}', py.where(mname, node), facts={'type': ann, 'triaged': True})
                        continue
                    ctx.ob('optional-truthiness', f'{mname}.{sqn}:{label}', not falsy,
                           f'`{ast.unparse(e)}` is tested for truthiness but {who} returns `{ann}`: the successful result(s) {what} '
                           f'can be falsy (empty / 0) and would be taken for failure; test `is None` instead', py.where(mname, node),
                           facts={'type': ann, 'source': who}, nontrivial=True)
    ctx.analysed['Optional values tested in boolean context'] = n_sites
    ctx.analysed['boolean-context calls with unresolved callee'] = n_unresolved


def ms_paths(py: PyRepo):
    """value-level paths of match_single: loops over a literal tuple of constructors unrolled, loop-free helpers of the module
    evaluated in place (a helper may call match_single back - that call stays a recursive call - but not itself)"""
    from ..core.pyeval import PyEval, unroll_constant_loops
    fn0 = py.function('pattern', 'match_single')
    fn = unroll_constant_loops(fn0)
    mi = py.module('pattern')

    def resolver(call, env, _ev):
        if isinstance(call.func, ast.Name) and call.func.id in mi.functions and call.func.id != fn0.name:
            g = mi.functions[call.func.id]
            calls_self = any(isinstance(n, ast.Call) and isinstance(n.func, ast.Name) and n.func.id == g.name for n in ast.walk(g))
            if not calls_self and not any(isinstance(n, ast.While) for n in ast.walk(g)):
                return g, None
        return None
    # a helper that loops over a short literal list of sub-problems (`for p, i in ((a0, b0), (a1, b1))`) is unrolled on the value level
    return fn0, PyEval(resolver=resolver, unroll_literal_loops=True).paths(fn)


def _leaves(v, out):
    if isinstance(v, tuple) and v and v[0] == 'ifexp':
        for x in v[1:]:
            _leaves(x, out)
    elif isinstance(v, tuple) and v and v[0] == 'boolop':
        for x in v[2]:
            _leaves(x, out)
    else:
        out.append(v)
    return out


def match_single_shape(ctx, py: PyRepo):
    """per-constructor shape, decided on the value-level paths: both sides destructured as the same constructor, pre-supplied
    bindings compared and not overwritten, the substitution built so far threaded through every recursive call and returned"""
    from ..core.pyeval import show
    fn, paths = ms_paths(py)
    where = py.where('pattern', fn)
    ctx.require(len(fn.args.args) == 3, 'match_single: signature changed')
    P, I, EXT = (('param', a.arg) for a in fn.args.args)
    NAME = ('attr', P, 'name')

    path_now = [None]

    def is_seed(v):
        """the accumulated substitution: the `extend` argument, the choice `extend if extend else {}`, or - on a path where `extend`
        was found empty / missing - the fresh {} that stands in for it"""
        lv = _leaves(v, [])
        if EXT in lv and all(x in (EXT, ('dict', ())) for x in lv):
            return True
        missing = path_now[0] is not None and any(c == EXT and b is False for c, b in path_now[0].conds)
        return bool(lv) and missing and all(x == ('dict', ()) for x in lv)

    def is_rec(v):
        return isinstance(v, tuple) and v and v[0] == 'call' and v[1] == ('name', fn.name)

    def destr(v):
        if isinstance(v, tuple) and v and v[0] == 'call' and v[1][0] == 'attr' and v[1][2] in ('deconstruct', 'unwrap') and v[1][1][0] == 'name' \
                and len(v[2]) == 1 and v[2][0] in (P, I):
            return (v[1][1][1], v[2][0])
        return None

    n_rec = 0
    bad_thread, bad_bound, unknown_bound = [], [], []
    ctor_ok: set[str] = set()
    for p in paths:
        path_now[0] = p
        cur = None                                     # the substitution built so far (None: still the seed)
        for e in p.events:
            if e.kind != 'ecall' or not is_rec(e.value):
                continue
            n_rec += 1
            args = list(e.value[2]) + [kv[1] for kv in e.value[3] if kv[0] == fn.args.args[2].arg]
            third = args[2] if len(args) >= 3 else None
            if third is None:
                bad_thread.append(f'{show(e.value)[:90]} starts from an empty substitution')
            elif cur is None:
                if not is_seed(third):
                    bad_thread.append(f'{show(e.value)[:90]} does not pass the substitution built so far')
            else:
                if third != cur:
                    bad_thread.append(f'{show(e.value)[:90]} does not pass the result of the previous recursive call')
                elif not any(c == ('cmp', 'is', cur, ('const', None)) and b is False for c, b in p.conds):
                    bad_thread.append('the result of a recursive call is threaded on without having been tested for failure (None)')
            cur = e.value
        if p.end[0] != 'return' or p.end[1] == ('const', None):
            continue
        rv = p.end[1]
        if not (rv == cur if cur is not None else is_seed(rv)):
            bad_thread.append(f'a successful path returns {show(rv)[:80]}, not the substitution built so far')
        est = set()
        for c, b in p.conds:
            if c[0] == 'cmp' and c[1] == 'is' and c[3] == ('const', None) and b is False and destr(c[2]):
                est.add(destr(c[2]))
            elif b is True and destr(c):
                est.add(destr(c))
        for ctor in {c for c, _s in est}:
            if (ctor, P) in est and (ctor, I) in est:
                ctor_ok.add(ctor)
        # the metavariable case
        if any(c == ('call', ('name', 'isinstance'), (P, ('name', 'MetaVar')), ()) and b is True for c, b in p.conds):
            has = None
            bound_vals = []
            for c, b in p.conds:
                if c[0] == 'cmp' and c[1] == 'in' and c[2] == NAME and is_seed(c[3]):
                    has = b
                    bound_vals = [('sub', c[3], NAME)]
                elif c[0] == 'cmp' and c[1] == 'is' and c[3] == ('const', None) and c[2][0] == 'call' and c[2][1][0] == 'attr' \
                        and c[2][1][2] == 'get' and is_seed(c[2][1][1]) and tuple(c[2][2]) == (NAME,):
                    has = not b
                    bound_vals = [c[2], ('sub', c[2][1][1], NAME)]
            sets = [e for e in p.events if e.kind == 'setitem']
            if has is None:
                unknown_bound.append(' and '.join(f'{show(c)[:60]} is {b}' for c, b in p.conds))
            elif has:
                cmpd = any(c[0] == 'cmp' and c[1] == '==' and b is True and {c[2], c[3]} & set(bound_vals) and I in (c[2], c[3]) for c, b in p.conds)
                if sets:
                    bad_bound.append('an existing binding is overwritten')
                elif not cmpd:
                    bad_bound.append('an existing binding is accepted without being compared with the instance')
            else:
                if not any(is_seed(e.value[0]) and e.value[1] == NAME and e.value[2] == I for e in sets):
                    bad_bound.append('an unbound metavariable is reported matched without being bound to the instance')
                # a new binding respects the metavariable's side conditions: it is made only where <pattern>.can_be_replaced_by(<instance>)
                if not any(b is True and c[0] == 'call' and c[1] == ('attr', P, 'can_be_replaced_by') and tuple(c[2]) == (I,) for c, b in p.conds):
                    bad_bound.append('an unbound metavariable is bound to an instance without `can_be_replaced_by(instance)` holding '
                                     '(freshness / positivity constraints of the metavariable)')
    ctx.require(not unknown_bound, 'match_single: cannot tell whether the metavariable already has a binding on the path where '
                + (unknown_bound[0] if unknown_bound else ''))
    ctx.ob('match-shape', 'bound-metavariable-compared', not bad_bound,
           'a metavariable that already has a binding must be compared with the instance, not rebound: ' + '; '.join(sorted(set(bad_bound))), where)
    for c in ('Implies', 'App', 'EVar', 'SVar', 'Symbol', 'Exists', 'Mu'):
        ctx.ob('match-shape', f'case/{c}', c in ctor_ok,
               f'match_single has no successful path on which both the pattern and the instance are destructured as {c}', where)
    ctx.ob('match-shape', 'substitution-threaded', n_rec > 0 and not bad_thread,
           'recursive calls must thread the substitution built so far: ' + '; '.join(sorted(set(bad_thread))[:3]), where,
           facts={'recursive calls on all paths': n_rec, 'paths': len(paths)})


def notation_matches(ctx, py: PyRepo):
    """Notation.matches(p) asks whether p is an instance of the notation: the DEFINITION is the pattern side of match_single and p
    the instance side; no match gives None; otherwise argument i is the binding of metavariable i, or the metavariable itself when
    the definition does not mention it - for every i below the arity."""
    from ..core.pyeval import PyEval, show as _sh
    ci = py.find_class('Notation', 'pattern')
    fn = ci.methods.get('matches') if ci is not None else None
    ctx.require(fn is not None and len(fn.args.args) == 2, 'anchor vanished: Notation.matches(pattern)')
    SELF_ = ('param', 'self')
    Pn = ('param', fn.args.args[1].arg)
    M = ('call', ('name', 'match_single'), (('attr', SELF_, 'definition'), Pn), ())
    rng = ('call', ('name', 'range'), (('attr', SELF_, 'arity'),), ())
    probs = []
    n = 0
    from ..core.pyfacts import self_method_resolver
    ms_def = py.module('pattern').functions.get('match_single')
    ms_params = [a.arg for a in ms_def.args.args] if ms_def is not None else []

    def positional(v):
        # match_single(pattern=.., instance=.., extend=None) is match_single(.., ..): keywords in parameter order, a trailing None dropped
        if not isinstance(v, tuple):
            return v
        v = tuple(positional(x) for x in v)
        if len(v) == 4 and v[0] == 'call' and v[1] == ('name', 'match_single') and (v[3] or len(v[2]) > 2):
            kw = dict(v[3])
            names = ms_params[len(v[2]):]
            if len(kw) == len(v[3]) and set(kw) <= set(names) and all(n_ in kw for n_ in names[:len(kw)]):
                args = list(v[2]) + [kw[n_] for n_ in names[:len(kw)]]
                while len(args) > 2 and args[-1] == ('const', None):
                    args.pop()
                return ('call', v[1], tuple(args), ())
        return v
    for p in PyEval(resolver=self_method_resolver(py, ci, SELF_, only_private=True)).paths(fn):
        if p.end[0] != 'return':
            continue
        n += 1
        p.conds = [(positional(c), b) for c, b in p.conds]
        p.end = (p.end[0], positional(p.end[1]))
        none = next((b for c, b in p.conds if c in (('cmp', 'is', M, ('const', None)), ('cmp', '==', M, ('const', None)))), None)
        if none is None:
            nn = next((b for c, b in p.conds if c == ('cmp', 'is not', M, ('const', None))), None)
            none = None if nn is None else (not nn)
        v = p.end[1]
        if none is None:
            probs.append(f'a result is returned without the test `match_single(self.definition, {Pn[1]}) is None` (conditions: '
                         + ', '.join(_sh(c)[:50] for c, _b in p.conds) + ')')
        elif none and v != ('const', None):
            probs.append('a failed match does not give None')
        elif not none:
            inner = v[2][0] if v[0] == 'call' and v[1] in (('name', 'tuple'), ('name', 'list')) and len(v[2]) == 1 else v
            ok = inner[0] == 'comp' and len(inner[3]) == 1 and inner[3][0][1] == rng and not inner[3][0][2]
            if ok:
                i_ = ('bound', inner[3][0][0])
                want = ('ifexp', ('cmp', 'in', i_, M), ('sub', M, i_), ('call', ('name', 'MetaVar'), (i_,), ()))
                alt = ('ifexp', ('cmp', 'not in', i_, M), ('call', ('name', 'MetaVar'), (i_,), ()), ('sub', M, i_))
                alt2 = ('call', ('attr', M, 'get'), (i_, ('call', ('name', 'MetaVar'), (i_,), ())), ())
                ok = inner[2] in (want, alt, alt2)
            if not ok:
                probs.append(f'a successful match gives `{_sh(v)[:90]}`, not (match[i] if i in match else MetaVar(i)) for i in range(arity)')
    ctx.ob('match-shape', 'notation-matches', n >= 2 and not probs,
           'Notation.matches: ' + '; '.join(sorted(set(probs))), py.where(ci.module, fn))


def match_single_paths(ctx, py: PyRepo):
    """path rules on match_single: (1) a notation pattern is matched by matching its expansion - in that branch `None` (failure) may be
    returned only by the delegation, a shortcut may only return a success; (2) an equality test between destructured components is
    between the components established (not None / truthy) on that very path, for one constructor"""
    from ..core.pyeval import PyEval, show
    fn, paths = ms_paths(py)
    where = py.where('pattern', fn)
    P, I = ('param', fn.args.args[0].arg), ('param', fn.args.args[1].arg)

    def is_destr(v):
        # C.deconstruct(x) / C.unwrap(x) and items of them
        if v[0] in ('item', 'sub') and isinstance(v[1], tuple):
            return is_destr(v[1])
        if v[0] == 'call' and v[1][0] == 'attr' and v[1][2] in ('deconstruct', 'unwrap') and v[1][1][0] == 'name' and len(v[2]) == 1 \
                and v[2][0] in (P, I):
            return (v[1][1][1], v[2][0])
        return None

    deleg_ok = True
    notation_paths = 0
    bad_cmp = []
    for p in paths:
        in_notation = any(c == ('call', ('name', 'isinstance'), (P, ('name', 'Instantiate')), ()) and b is True for c, b in p.conds)
        if in_notation and p.end[0] == 'return':
            notation_paths += 1
            v = p.end[1]
            delegation = v[0] == 'call' and v[1] == ('name', 'match_single') and len(v[2]) >= 2 \
                and v[2][0] == ('call', ('attr', P, 'simplify'), (), ()) and v[2][1] == I
            can_fail = v == ('const', None) or (v[0] == 'call' and v[1] == ('name', 'match_single')) or v[0] == 'loopvar'
            if not delegation and can_fail:
                deleg_ok = False
        # established destructurings on this path
        est = set()
        for c, b in p.conds:
            if c[0] == 'cmp' and c[1] == 'is' and c[3] == ('const', None) and b is False and is_destr(c[2]):
                est.add(is_destr(c[2]))
            elif b is True and is_destr(c) and c[0] == 'call':
                est.add(is_destr(c))
        for c, b in p.conds:
            if c[0] == 'cmp' and c[1] == '==' and is_destr(c[2]) and is_destr(c[3]):
                a, d = is_destr(c[2]), is_destr(c[3])
                if a[0] != d[0] or a not in est or d not in est:
                    bad_cmp.append(f'{show(c)} on a path that established only {sorted(x[0] for x in est)}')
    # every component of the constructor is matched: on a successful path that handles constructor C, each component i of the two
    # destructurings is either handed pairwise to a recursive call or compared for equality (the bound variable of a binder)
    def n_components(cname, how):
        ci_ = py.cls(cname, 'pattern')
        if how == 'unwrap':
            return len([1 for _f, t in ci_.fields if t and 'Pattern' in t])
        g = ci_.methods.get('deconstruct') if ci_ is not None else None
        if g is None:
            return None
        from .c16 import returned_exprs
        lens = {len(v.elts) if isinstance(v, ast.Tuple) else 0 for _st, v in returned_exprs(g)
                if not (isinstance(v, ast.Constant) and v.value is None) and not isinstance(v, ast.Call)}
        return lens.pop() if len(lens) == 1 else None

    def comp(d, i):
        return {('item', d, i), ('sub', d, ('const', i))}
    missing = []
    for p in paths:
        if p.end[0] != 'return' or p.end[1] == ('const', None):
            continue
        dvals = {}
        for c, b in p.conds:
            for v in ([c[2]] if c[0] == 'cmp' and c[1] == 'is' and c[3] == ('const', None) and b is False else ([c] if b is True else [])):
                if v[0] == 'call' and is_destr(v):
                    dvals[is_destr(v)] = (v, v[1][2])
        ctors = {k[0] for k in dvals}
        recs = [e.value for e in p.events if e.kind == 'ecall' and e.value[0] == 'call' and e.value[1] == ('name', fn.name)]
        eqs = [(c[2], c[3]) for c, b in p.conds if c[0] == 'cmp' and ((c[1] == '==' and b is True) or (c[1] == '!=' and b is False))]
        for cname in sorted(ctors):
            if (cname, P) not in dvals or (cname, I) not in dvals:
                continue
            (dp, how), (di, _h) = dvals[(cname, P)], dvals[(cname, I)]
            k = n_components(cname, how)
            if k is None:
                continue
            if k == 0:
                if not any({a, b_} == {dp, di} for a, b_ in eqs):
                    missing.append(f'{cname}: the two destructured values are not compared')
                continue
            for i in range(k):
                paired = any(len(r[2]) >= 2 and r[2][0] in comp(dp, i) and r[2][1] in comp(di, i) for r in recs) \
                    or any((a in comp(dp, i) and b_ in comp(di, i)) or (b_ in comp(dp, i) and a in comp(di, i)) for a, b_ in eqs)
                if not paired:
                    missing.append(f'{cname}: component {i} of the pattern is neither matched against nor compared with component {i} of the instance')
    ctx.ob('match-shape', 'all-components-matched', not missing,
           'match_single reports a match for a constructor without having matched all of its components: ' + '; '.join(sorted(set(missing))[:3]),
           where)
    ctx.ob('match-shape', 'notation-matched-through-expansion', deleg_ok and notation_paths >= 1,
           'in the notation branch of match_single a failure (None) is returned without trying the expansion: two applications of one '
           'notation can denote equal patterns although their arguments differ (an argument the definition ignores), so a shortcut may '
           'only confirm a match, never refute one', where, facts={'paths in the notation branch': notation_paths})
    ctx.ob('match-shape', 'components-compared-per-constructor', not bad_cmp,
           'match_single compares destructured components that do not belong to the constructor case being handled: ' + '; '.join(sorted(set(bad_cmp))[:2]),
           where)


def match_list_shape(ctx, py: PyRepo):
    """`match(equations)` solves the whole system: every equation is handed to match_single together with the substitution
    accumulated so far, a failure fails the system, the accumulator becomes the returned substitution; no equation is skipped
    (an equation `(p, p)` with metavariables still pins `phi_i := phi_i`)."""
    from ..core.pyeval import PyEval, show
    fn = py.function('pattern', 'match')
    where = py.where('pattern', fn)
    ctx.require(len(fn.args.args) == 1, 'pattern.match: signature changed')
    EQS = ('param', fn.args.args[0].arg)
    mi_ = py.module('pattern')

    def helper_resolver(call, env, _ev):
        """private module-level helpers (the loop over the equations moved into `_solve(equations, acc)`) are evaluated in place"""
        if isinstance(call.func, ast.Name) and call.func.id.startswith('_') and call.func.id in mi_.functions and call.func.id not in env:
            return mi_.functions[call.func.id], None
        return None
    paths = PyEval(resolver=helper_resolver).paths(fn)
    final = [p for p in paths if p.end[0] == 'return' and p.end[1] != ('const', None)]
    ctx.require(len(final) >= 1, 'pattern.match: no returning path')
    n = 0
    for p in final:
        loops = [e for e in p.events if e.kind == 'loop' and e.value[2] == EQS]
        ok_ret = p.end[1][0] == 'loopvar'
        ctx.ob('match-shape', 'system/returns-accumulator', ok_ret and len(loops) == 1,
               f'match must return the substitution accumulated over one loop over all the equations; it returns {show(p.end[1])}', where)
        if not (ok_ret and len(loops) == 1):
            continue
        ACC = p.end[1][1]
        elem = ('elem', EQS)
        lhs, rhs = ('item', elem, 0), ('item', elem, 1)
        for sp in loops[0].extra:
            n += 1
            cevs = [e for e in sp.events if e.kind == 'ecall' and e.value[0] == 'call' and e.value[1] == ('name', 'match_single')]
            calls = [e.value for e in cevs]
            # the third argument must be the accumulator itself (by name: its value is indistinguishable from a fresh `{}` here)
            threads = all(isinstance(e.node, ast.Call) and len(e.node.args) == 3 and isinstance(e.node.args[2], ast.Name)
                          and e.node.args[2].id == ACC for e in cevs)
            if sp.end[0] in ('fall', 'continue'):
                good = len(calls) == 1 and threads and len(calls[0][2]) == 3 and calls[0][2][0] == lhs and calls[0][2][1] == rhs \
                    and sp.env.get(ACC) == calls[0] and any(c == ('cmp', 'is', calls[0], ('const', None)) and b is False for c, b in sp.conds)
                why = ' and '.join(f'{show(c)} is {b}' for c, b in sp.conds) or 'unconditionally'
                ctx.ob('match-shape', f'system/equation-path{n}', good,
                       f'match moves on to the next equation ({why[:160]}) without having solved this one with match_single(pattern, instance, '
                       f'<accumulated substitution>) and kept the result: an equation that is skipped - even a syntactically trivial one - '
                       f'no longer constrains the metavariables it mentions', where)
            elif sp.end[0] == 'return':
                good = sp.end[1] == ('const', None) and len(calls) == 1 and any(
                    c == ('cmp', 'is', calls[0], ('const', None)) and b is True for c, b in sp.conds)
                ctx.ob('match-shape', f'system/failure-path{n}', good,
                       'match may give up inside the loop only by returning None when match_single failed on the current equation', where)
    ctx.analysed['match(): loop paths'] = n


def run(ctx):
    py = PyRepo.get()
    lint(ctx, py)
    match_single_shape(ctx, py)
    match_single_paths(ctx, py)
    notation_matches(ctx, py)
    match_list_shape(ctx, py)
    # C12 T1 for match_single
    from . import c12
    for mname, qn, fn, subj, lst, has_inst in c12.dispatch_sites(py):
        if qn == 'match_single':
            ok = c12.sees_through(py, fn, subj, has_inst)
            ctx.ob('match-shape', f'sees-through-notation({subj})', ok,
                   'match_single tests the pattern for MetaVar before expanding notation: a notation whose body is a bare metavariable never matches',
                   py.where(mname, fn))
        elif mname == 'pattern' and (mname, qn.split('.')[-1]) not in c12.SYNTACTIC:
            # the destructuring helpers match_single relies on (unwrap, X.deconstruct): all notation levels must be expanded, on both
            # sides, or an instance that is a notation over a notation fails to match its own expansion
            ok = c12.sees_through(py, fn, subj, has_inst)
            ctx.ob('match-shape', f'helper-sees-through-notation/{qn}', ok,
                   f'{qn} is used by match_single to destructure both sides; it does not expand every level of notation around `{subj}` '
                   f'(one simplify() strips one level): matching a pattern against a notation application of it fails', py.where(mname, fn))
    # matching is a function of its arguments: no module-level table written from the matching code (a memo keyed by the pattern
    # alone returns the answer computed for another constructor / another call)
    from .c18 import module_state_writes
    for mname, qn, g, node in module_state_writes(py, {'pattern'}):
        ctx.ob('match-shape', f'pure/{qn}:{g}', False,
               f'{qn} writes the module-level object `{g}`: the result of matching / destructuring then depends on earlier calls in the '
               f'process', py.where(mname, node))
    ctx.floor('optional-truthiness', 12)
    ctx.floor('match-shape', 11)
    ctx.explanation = (
        'Type-directed truthiness rule over the whole package: every value of type `T | None` (type from the resolved callee\'s return '
        'annotation, a parameter or local annotation) that is tested by truthiness (if / while / and / or / not / walrus / assert / '
        'comprehension filter) must have no falsy inhabitant in T (dict, variable-length tuple, int, str, list, set ...); Pattern.unwrap '
        'on a known class is truthy when the class has a pattern field. This decides that an empty successful match / a 0 result is never '
        'taken for failure. Plus the per-constructor shape of match_single. Soundness and completeness of matching as equations on all '
        'pairs are not evaluated.')
    ctx.assumptions = ['return annotations are truthful', 'INTENDED triage table (2 entries, one reason each)']
