"""C14 - binary round trip: the deserializer's tables agree with the serializer's (writer/reader agreement)."""
from __future__ import annotations

import ast
import re

from ..core import pymachine as PM
from ..core.pyeval import PyEval, PPath, Decline, show
from ..core.pyfacts import PyRepo
from ..core.report import AnalysisError
from ..core.wiring import Wiring, show_operand, _ann
from . import c02

LEVEL = 'other'
INTERP = ('param', 'interpreter')
ISTACK = ('attr', INTERP, 'stack')
PHASES = {'Gamma': 'publish_axiom', 'Claim': 'publish_claim', 'Proof': 'publish_proof'}


def find_dispatch(fn: ast.FunctionDef):
    loops = [n for n in fn.body if isinstance(n, ast.While)]
    if len(loops) != 1:
        raise AnalysisError('deserialize_instructions: expected exactly one decoding loop')
    loop = loops[0]
    chain = [n for n in loop.body if isinstance(n, ast.If)]
    if len(chain) != 1:
        raise AnalysisError('deserialize_instructions: expected one if/elif dispatch chain in the loop')
    return loop, chain[0]


def branches(node: ast.If):
    """[(opcode name, body)] and the final else body"""
    out = []
    cur = node
    while True:
        t = cur.test
        op = None
        if isinstance(t, ast.Compare) and len(t.ops) == 1 and isinstance(t.ops[0], ast.Eq):
            for side in (t.left, t.comparators[0]):
                if isinstance(side, ast.Attribute) and isinstance(side.value, ast.Name) and side.value.id == 'Instruction':
                    op = side.attr
        if op is None:
            raise AnalysisError(f'deserialize_instructions: dispatch test outside the subset: {ast.unparse(t)}')
        out.append((op, cur.body, cur))
        if len(cur.orelse) == 1 and isinstance(cur.orelse[0], ast.If):
            cur = cur.orelse[0]
            continue
        return out, cur.orelse


def reads_of(v, acc):
    """operand reads inside a value, in evaluation order: ('S',) scalar, ('L',) list, ('Ln', k) k lists, ('C', count) counted bytes"""
    if not isinstance(v, tuple) or not v:
        return
    if v[0] == 'call' and v[1] == ('name', 'next_byte'):
        acc.append(('S', v))
        return
    if v[0] == 'call' and v[1] == ('name', 'read_list'):
        acc.append(('L', v))
        return
    if v[0] == 'comp':
        inner: list = []
        reads_of(v[2], inner)
        if inner and len(v[3]) == 1:
            it = v[3][0][1]
            if it[0] == 'call' and it[1] == ('name', 'range') and len(it[2]) == 1:
                cnt = it[2][0]
                for kind, _x in inner:
                    acc.append(('rep', kind, cnt, v))
                return
    for x in v:
        if isinstance(x, tuple):
            reads_of(x, acc)


def slot_of(v):
    cv = PM.canon_value(_as_self(v))
    return cv if cv[0] in ('slot', 'run') else None


def _as_self(v):
    """interpreter.stack -> self.stack so that the slot canonicaliser applies"""
    if v == ISTACK:
        return PM.STACK0
    if isinstance(v, tuple):
        return tuple(_as_self(x) if isinstance(x, tuple) else x for x in v)
    return v


def run(ctx):
    py = PyRepo.get()
    w = Wiring(py)
    fn = py.function('deserialize', 'deserialize_instructions')
    where0 = py.where('deserialize', fn)
    from ..core import astpaths
    loops = [n for n in fn.body if isinstance(n, ast.While)]
    ctx.require(len(loops) == 1, 'deserialize_instructions: expected exactly one decoding loop')
    loop = loops[0]
    conv0 = [n for n in loop.body if isinstance(n, ast.Assign) and isinstance(n.value, ast.Call) and ast.unparse(n.value.func) == 'Instruction'
             and isinstance(n.targets[0], ast.Name)]
    ctx.require(len(conv0) == 1, 'deserialize_instructions: the byte is not converted with Instruction(..) in the loop')
    SUBJ = conv0[0].targets[0].id
    # the code that runs for one opcode: the loop body with the dispatch on the instruction decided (if/elif chains, guard clauses and
    # match statements alike); an opcode is handled if that differs from what runs for an opcode no test mentions
    default_body = astpaths.specialise(loop.body, SUBJ, None, 'Instruction')
    default_txt = [ast.unparse(x) for x in default_body]
    members = [m for m in (py.cls('Instruction').fields and [f for f, _t in py.cls('Instruction').fields] or [])]
    if not members:
        members = [t.id for n in py.cls('Instruction').node.body if isinstance(n, ast.Assign) for t in n.targets if isinstance(t, ast.Name)]
    ctx.require(len(members) >= 10, 'anchor vanished: members of the Instruction enumeration')
    handled = {}
    for op in members:
        body = astpaths.specialise(loop.body, SUBJ, op, 'Instruction')
        if [ast.unparse(x) for x in body] != default_txt:
            rest = [x for x in body if x is not conv0[0]]
            handled[op] = (rest, rest[0] if rest else loop)
    # a second branch for an opcode already handled earlier in a plain if / elif chain is dead code
    try:
        _loop, chain = find_dispatch(fn)
        brs, _els = branches(chain)
        seen_ops = set()
        for op, _body, node in brs:
            if op in seen_ops:
                ctx.ob('reader-table', f'duplicate/{op}', False, f'{op} has two branches; the second is dead', py.where('deserialize', node))
            seen_ops.add(op)
    except AnalysisError:
        pass
    chain = loop
    # --- loop ends only on None
    t = loop.test
    ok_loop = isinstance(t, ast.Compare) and len(t.ops) == 1 and isinstance(t.ops[0], ast.IsNot) \
        and isinstance(t.comparators[0], ast.Constant) and t.comparators[0].value is None
    ctx.ob('decode-loop', 'ends-only-on-none', ok_loop,
           f'the decoding loop condition `{ast.unparse(t)}` also stops on a zero byte (truthiness of an int | None)',
           py.where('deserialize', loop))
    # --- the opcode dispatched on is the byte the loop condition read, unchanged
    read_name = t.left.target.id if isinstance(t, ast.Compare) and isinstance(t.left, ast.NamedExpr) and isinstance(t.left.target, ast.Name) else None
    arg0 = conv0[0].value.args[0] if len(conv0[0].value.args) == 1 and not conv0[0].value.keywords else None
    rebound = [n for st in loop.body for n in ast.walk(st) if isinstance(n, ast.Name) and n.id == read_name and isinstance(n.ctx, ast.Store)
               and n.lineno <= conv0[0].lineno]
    ctx.ob('decode-loop', 'opcode-is-the-byte-read', read_name is not None and isinstance(arg0, ast.Name) and arg0.id == read_name and not rebound,
           f'the instruction dispatched on must be Instruction(<the byte the loop condition read>); found `{ast.unparse(conv0[0])}` for the '
           f'byte bound by `{ast.unparse(t)}`: every opcode would be decoded as another one', py.where('deserialize', conv0[0]))
    # --- unknown input raises
    conv = [n for n in loop.body if isinstance(n, ast.Assign) and isinstance(n.value, ast.Call)
            and ast.unparse(n.value.func) == 'Instruction']
    guarded = any(isinstance(n, ast.Try) for n in loop.body)
    ctx.ob('decode-loop', 'unknown-byte-raises', bool(conv) and not guarded,
           'Instruction(byte) must not be guarded by a default: unknown bytes have to raise', py.where('deserialize', loop))
    # ... decided on what runs for an opcode that no test mentions: every path raises
    dpaths = astpaths.paths([x for x in default_body if x is not conv0[0]])
    else_raises = bool(dpaths) and all(sp.end == 'raise' for sp in dpaths)
    ctx.ob('decode-loop', 'unhandled-opcode-raises', else_raises,
           'the dispatch chain must end in a raising else branch', py.where('deserialize', chain))
    # --- truncated input is an error: the operand reader raises at end of input, and lists read exactly `length` operands through it.
    #     The three readers are found by role, not by name: the end-aware reader is what the loop condition calls; an operand reader
    #     is any helper (nested function, or method of a reader object created before the loop) that calls it; a list reader is a
    #     helper that loops over operand readers.
    dmod = py.module('deserialize')
    nested = {n.name: n for n in fn.body if isinstance(n, ast.FunctionDef)}
    prelude = [st for st in fn.body if st is not loop and not isinstance(st, ast.FunctionDef) and st.lineno < loop.lineno]
    env0 = {'interpreter': INTERP, 'data': ('param', 'data')}
    try:
        pre = [q for q in PyEval()._block(prelude, [PPath(env=dict(env0))]) if q.end == ('fall',)] if prelude else [PPath(env=dict(env0))]
    except Decline as d:
        raise AnalysisError(f'deserialize_instructions: statements before the decoding loop outside the analysed subset: {d}')
    ctx.require(len(pre) == 1, 'deserialize_instructions: the statements before the decoding loop branch')
    env1 = dict(pre[0].env)
    # module-level tables of constants (a tuple of parameter names, say) are what their names denote
    for st in dmod.tree.body:
        if isinstance(st, (ast.Assign, ast.AnnAssign)) and st.value is not None and isinstance(st.value, (ast.Tuple, ast.List)) \
                and all(isinstance(x, ast.Constant) for x in st.value.elts):
            t_ = st.targets[0] if isinstance(st, ast.Assign) else st.target
            if isinstance(t_, ast.Name) and t_.id not in env1:
                env1[t_.id] = ('tuple', tuple(('const', x.value) for x in st.value.elts))
    reader_classes = {v[1][1] for v in env1.values() if isinstance(v, tuple) and v and v[0] == 'call' and v[1][0] == 'name'
                      and v[1][1] in dmod.classes}

    def func_def(fv):
        """function value -> (FunctionDef, owner class or None)"""
        if fv[0] == 'name':
            g = nested.get(fv[1]) or dmod.functions.get(fv[1])
            return (g, None) if g is not None else None
        if fv[0] == 'attr' and fv[1][0] == 'call' and fv[1][1][0] == 'name' and fv[1][1][1] in dmod.classes:
            g = dmod.classes[fv[1][1][1]].methods.get(fv[2])
            return (g, dmod.classes[fv[1][1][1]]) if g is not None else None
        return None

    def callee_of(node, owner, selfname):
        """the helper an ast call inside a reader refers to"""
        f = node.func
        if owner is None and isinstance(f, ast.Name):
            return nested.get(f.id)
        if owner is not None and isinstance(f, ast.Attribute) and isinstance(f.value, ast.Name) and f.value.id == selfname:
            return owner.methods.get(f.attr)
        return None

    test_calls = [n for n in ast.walk(loop.test) if isinstance(n, ast.Call)]
    ctx.require(len(test_calls) == 1, 'deserialize_instructions: the loop condition does not read the next byte through one call')
    mb_hit = func_def(PyEval().expr(test_calls[0].func, dict(env1), []))
    ctx.require(mb_hit is not None, 'deserialize_instructions: the reader called by the loop condition is not a helper of the module')
    mb, mb_owner = mb_hit
    cands = [(g, None) for g in nested.values()] + [(g, c) for cn in sorted(reader_classes) for c in [dmod.classes[cn]] for g in c.methods.values()]
    role = {id(mb): 'MB'}

    def selfname_of(g, owner):
        return g.args.args[0].arg if owner is not None and g.args.args else None
    for g, owner in cands:
        if g is mb:
            continue
        if any(isinstance(n, ast.Call) and callee_of(n, owner, selfname_of(g, owner)) is mb for n in ast.walk(g)):
            role[id(g)] = 'NB'
    for g, owner in cands:
        if id(g) in role:
            continue
        if any(isinstance(n, ast.Call) and role.get(id(callee_of(n, owner, selfname_of(g, owner)))) == 'NB' for n in ast.walk(g)):
            role[id(g)] = 'RL'
    nbs = [(g, o) for g, o in cands if role.get(id(g)) == 'NB']
    rls = [(g, o) for g, o in cands if role.get(id(g)) == 'RL']
    ctx.ob('decode-loop', 'operand-reader-raises-at-end', bool(nbs),
           'no helper reads an operand through the end-aware reader: a truncated operand must be an error', where0) if not nbs else None
    for nb, owner in nbs:
        ps = PyEval().paths(nb)
        rets = [p for p in ps if p.end[0] == 'return']
        raises = [p for p in ps if p.end[0] == 'raise']
        sn = selfname_of(nb, owner)
        src_call = ('call', ('name', mb.name), (), ()) if owner is None else ('call', ('attr', ('param', sn), mb.name), (), ())

        def none_test(c):
            return c[0] == 'cmp' and c[1] in ('==', 'is') and {c[2], c[3]} == {src_call, ('const', None)}
        ok_nb = bool(rets) and all(p.end[1] == src_call and any(none_test(c) and b is False for c, b in p.conds) for p in rets) \
            and any(any(none_test(c) and b is True for c, b in p.conds) for p in raises)
        ctx.ob('decode-loop', 'operand-reader-raises-at-end' if len(nbs) == 1 else f'operand-reader-raises-at-end/{nb.name}', ok_nb,
               f'{nb.name} must return the next byte only when there is one and raise otherwise: a truncated operand must be an error',
               py.where('deserialize', nb))
    ps = PyEval().paths(mb)
    # None exactly at end of input: the only test is cursor == len(data) (or >=); otherwise data[cursor] is returned and the cursor
    # moves on by one
    ok_mb = len(ps) == 2 and all(p.end[0] == 'return' for p in ps)
    if ok_mb:
        byte_p = [p for p in ps if p.end[1][0] == 'sub']
        none_p = [p for p in ps if p.end[1] == ('const', None)]
        ok_mb = len(byte_p) == 1 and len(none_p) == 1
    if ok_mb:
        DATA, IDX = byte_p[0].end[1][1], byte_p[0].end[1][2]
        LEN = ('call', ('name', 'len'), (DATA,), ())
        at_end = {(('cmp', '==', IDX, LEN), True), (('cmp', '==', LEN, IDX), True), (('cmp', '>=', IDX, LEN), True), (('cmp', '<=', LEN, IDX), True),
                  (('cmp', '<', IDX, LEN), False), (('cmp', '>', LEN, IDX), False), (('cmp', '!=', IDX, LEN), False), (('cmp', '!=', LEN, IDX), False)}
        before = {(c, not b) for c, b in at_end}
        steps = [e.value for e in byte_p[0].events if e.kind == 'aug' and e.value[1] == IDX] + \
                [('Add', IDX, e.value[2][3]) for e in byte_p[0].events if e.kind == 'setattr' and ('attr', e.value[0], e.value[1]) == IDX
                 and e.value[2][0] == 'binop' and e.value[2][1] == 'Add' and e.value[2][2] == IDX]
        ok_mb = len(none_p[0].conds) == 1 and tuple(none_p[0].conds[0]) in at_end and len(byte_p[0].conds) == 1 \
            and tuple(byte_p[0].conds[0]) in before and steps == [('Add', IDX, ('const', 1))] \
            and not any(e.kind in ('aug', 'setattr', 'setitem') for e in none_p[0].events)
    ctx.ob('decode-loop', 'end-of-input-is-none', ok_mb, f'{mb.name} must return None exactly at end of input', py.where('deserialize', mb))
    # the cursor starts at the first byte
    if ok_mb:
        start = None
        if IDX[0] in ('name', 'nonlocal', 'free') and isinstance(IDX[1], str):
            start = env1.get(IDX[1])
        elif IDX[0] == 'attr' and IDX[1] == ('param', 'self'):
            owner_ = next((c for c in dmod.classes.values() if any(g is mb for g in c.methods.values())), None)
            init_ = owner_.methods.get('__init__') if owner_ is not None else None
            if init_ is not None:
                vals = [n.value for n in ast.walk(init_) if isinstance(n, (ast.Assign, ast.AnnAssign)) and n.value is not None
                        and ast.unparse(n.targets[0] if isinstance(n, ast.Assign) else n.target) == f'self.{IDX[2]}']
                if len(vals) == 1 and isinstance(vals[0], ast.Constant):
                    start = ('const', vals[0].value)
        if start is not None:
            ctx.ob('decode-loop', 'cursor-starts-at-zero', start == ('const', 0),
                   f'the read cursor starts at {show(start)}: decoding must begin with the first byte of the input', py.where('deserialize', mb))
        else:
            ctx.advisory('deserialize: the initial value of the read cursor could not be determined (rule cursor-starts-at-zero not instantiated)')
    ok_rl = bool(rls)
    for rl, owner in rls:
        sn = selfname_of(rl, owner)

        def is_nb(n):
            return isinstance(n, ast.Call) and role.get(id(callee_of(n, owner, sn))) == 'NB'
        # the elements come out of ONE iteration over range(<length>) - a for loop or a comprehension - each through an operand reader
        loops_ = [n for n in ast.walk(rl) if isinstance(n, ast.For)]
        comps = [n for n in ast.walk(rl) if isinstance(n, (ast.ListComp, ast.GeneratorExp)) and len(n.generators) == 1
                 and not n.generators[0].ifs and is_nb(n.elt)]
        bound = None
        if len(loops_) == 1 and not comps and ast.unparse(loops_[0].iter).startswith('range(') and any(is_nb(n) for n in ast.walk(loops_[0])):
            bound = ast.unparse(loops_[0].iter)[6:-1]
        elif len(comps) == 1 and not loops_ and ast.unparse(comps[0].generators[0].iter).startswith('range('):
            bound = ast.unparse(comps[0].generators[0].iter)[6:-1]
        ok1 = bound is not None
        if ok1:
            defs = [n for n in ast.walk(rl) if isinstance(n, ast.Assign) and isinstance(n.targets[0], ast.Name) and n.targets[0].id == bound]
            ok1 = len(defs) == 1 and is_nb(defs[0].value)
        # ... and what was read is what is handed back, in order: the loop appends each operand to one list, which (as it is, or as
        # a tuple) is every return value; the comprehension form is returned directly
        if ok1:
            rets_ = [r for r in ast.walk(rl) if isinstance(r, ast.Return)]

            def unwrap(e):
                while isinstance(e, ast.Call) and isinstance(e.func, ast.Name) and e.func.id in ('tuple', 'list') and len(e.args) == 1:
                    e = e.args[0]
                return e
            if loops_:
                lp_ = loops_[0]
                held = {n.targets[0].id for n in ast.walk(lp_) if isinstance(n, ast.Assign) and isinstance(n.targets[0], ast.Name) and is_nb(n.value)}
                apps = [c for c in ast.walk(lp_) if isinstance(c, ast.Call) and isinstance(c.func, ast.Attribute) and c.func.attr == 'append'
                        and isinstance(c.func.value, ast.Name) and len(c.args) == 1
                        and (is_nb(c.args[0]) or isinstance(c.args[0], ast.Name) and c.args[0].id in held)]
                top_level = [st for st in lp_.body if any(c is x for c in apps for x in ast.walk(st))]
                ok_ret = len(apps) == 1 and len(top_level) == 1 and isinstance(top_level[0], ast.Expr) and bool(rets_) \
                    and all(r.value is not None and isinstance(unwrap(r.value), ast.Name) and unwrap(r.value).id == apps[0].func.value.id for r in rets_)
            else:
                ok_ret = bool(rets_) and all(r.value is not None and (unwrap(r.value) is comps[0] or isinstance(unwrap(r.value), ast.Name)) for r in rets_)
            ctx.ob('decode-loop', 'list-reader-returns-what-it-read', ok_ret,
                   f'{rl.name} must hand back every operand it read, in order (the elements are appended to one list unconditionally and that '
                   f'list is what is returned): a list that loses elements replays a metavariable with other constraints', py.where('deserialize', rl))
        ok_rl = ok_rl and ok1
    ctx.ob('decode-loop', 'lists-read-through-checked-reader', ok_rl,
           'the list reader must read a length with the operand reader and then exactly that many operands with it',
           py.where('deserialize', rls[0][0] if rls else fn))

    ROLE_NAME = {'MB': 'maybe_next_byte', 'NB': 'next_byte', 'RL': 'read_list'}

    def canon_readers(v):
        """calls of the readers, however they are reached (nested function, bound method held in a local, method of the reader
        object), under their role names - the rest of the analysis speaks of next_byte / read_list"""
        if not isinstance(v, tuple) or not v:
            return v
        v = tuple(canon_readers(x) if isinstance(x, tuple) else x for x in v)
        if v[0] == 'call' and isinstance(v[1], tuple):
            hit = func_def(v[1])
            if hit is not None and id(hit[0]) in role:
                return ('call', ('name', ROLE_NAME[role[id(hit[0])]]), v[2], v[3])
        return v
    # --- writer table
    writer = {}          # opcode -> [(method, case)]
    for meth in PM.INTERP_METHODS:
        got = w.serializer_cases(meth)
        if got is None:
            continue
        for case in got[1]:
            if case['opcode']:
                writer.setdefault(case['opcode'], []).append((meth, case))
    writer_emits(ctx, py, w)

    def resolver(call, env, _ev):
        """helper functions of the deserialize module (the body of a branch moved out of the dispatch loop): evaluated in place"""
        if isinstance(call.func, ast.Name) and call.func.id in dmod.functions and call.func.id != fn.name \
                and call.func.id not in env:
            h = dmod.functions[call.func.id]
            if not any(isinstance(x, (ast.For, ast.While)) for x in ast.walk(h)):
                return h, None
        return None
    ev = PyEval(resolver=resolver)
    ev.distinct_calls = lambda v_: func_def(v_[1]) is not None and id(func_def(v_[1])[0]) in role
    # nested helpers of the decoder that are not readers (`peek_top_two()`) are closures: evaluated in place
    for g_ in fn.body:
        if isinstance(g_, ast.FunctionDef) and id(g_) not in role and not any(isinstance(x, (ast.For, ast.While, ast.Yield, ast.YieldFrom)) for x in ast.walk(g_)) \
                and g_.name not in env1:
            env1[g_.name] = ('localdef', g_.name, id(g_))
            ev.localdefs[id(g_)] = g_
    direct_mb = []
    for op in sorted(writer):
        meths = sorted({m for m, _c in writer[op]})
        tag = f'{op}'
        if op not in handled:
            ctx.ob('reader-table', f'handler/{op}', False,
                   f'the serializer writes {op} (for {", ".join(meths)}) but the deserializer has no branch for it', where0)
            continue
        body, node = handled[op]
        where = py.where('deserialize', node)
        try:
            paths = ev._block(body, [PPath(env=dict(env1))])
        except Decline as d:
            raise AnalysisError(f'deserialize_instructions/{op}: outside the analysed subset: {d}')
        for p_ in paths:
            for e_ in p_.events:
                e_.value = canon_readers(e_.value)
                if e_.kind == 'ecall' and e_.value[0] == 'call' and e_.value[1] == ('name', 'maybe_next_byte'):
                    direct_mb.append(op)
            p_.conds = [(canon_readers(c_), b_) for c_, b_ in p_.conds]
            if p_.end[0] in ('return', 'raise') and len(p_.end) > 1:
                p_.end = (p_.end[0], canon_readers(p_.end[1]))
        acc = [p for p in paths if p.end[0] != 'raise']
        ctx.ob('reader-table', f'handler/{op}', bool(acc), f'the {op} branch always raises', where)
        if not acc:
            continue
        # calls on the interpreter, per accepting path
        calls_per_path = []
        for p in acc:
            calls = [e.value for e in p.events if e.kind == 'ecall' and e.value[1][0] == 'attr' and e.value[1][1] == INTERP
                     and e.value[1][2] in PM.INTERP_METHODS]
            calls_per_path.append((p, calls))
        if op == 'Publish':
            publish_phases._raising = [p for p in paths if p.end[0] == 'raise']
            publish_phases(ctx, py, acc, calls_per_path, where)
            continue
        if op == 'Instantiate':
            instantiate_pairing(ctx, py, calls_per_path, where)
        # (1) layout
        rd: list = []
        seen = set()
        for p in acc[:1]:
            for e in p.events:
                if e.kind == 'ecall':
                    sub: list = []
                    reads_of(e.value, sub)
                    for x in sub:
                        if x[0] in ('S', 'L'):
                            # a read call is an event of its own, once per execution (five `x = read_list()` statements are five
                            # reads although the five values are the same term); inside a later call it is only passed on
                            if x[-1] is e.value or x[-1] == e.value and len(sub) == 1 and e.value[0] == 'call' and e.value[1] in (('name', 'next_byte'), ('name', 'read_list')):
                                rd.append(x)
                            continue
                        if id(x[-1]) not in seen and x[-1] not in seen:
                            seen.add(x[-1])
                            rd.append(x)
        shape = []
        for x in rd:
            if x[0] == 'S':
                shape.append('S')
            elif x[0] == 'L':
                shape.append('L')
            elif x[0] == 'rep' and x[1] == 'L' and x[2][0] == 'const':
                shape.extend(['L'] * x[2][1])
            elif x[0] == 'rep' and x[1] == 'S':
                # counted bytes: the preceding scalar must be the count
                if shape and shape[-1] == 'S':
                    shape[-1] = 'L'
                else:
                    shape.append('?counted')
            else:
                shape.append('?')
        wshapes = {tuple(c02.py_shape(c['operands'])) for _m, c in writer[op]}
        ctx.ob('reader-layout', tag, wshapes == {tuple(shape)},
               f'{op}: the serializer writes operands shaped {sorted(wshapes)}, the deserializer reads {shape}', where,
               facts={'writer': sorted(wshapes), 'reader': shape})
        # (2) replayed call writes the same opcode again
        called = sorted({c[1][2] for _p, calls in calls_per_path for c in calls})
        ok_call = bool(called) and all(any(op == c2['opcode'] for m2, c2 in writer.get(op, []) if m2 == m) for m in called)
        ctx.ob('reader-replay', tag, ok_call,
               f'{op} is replayed through {called or "no interpreter call"}, which does not write {op} back', where,
               facts={'called': called, 'writers': meths})
        # (3) stack slots: distinct, and the slot each parameter is read from is the slot the tracker binds it to
        for p, calls in calls_per_path:
            for c in calls:
                meth = c[1][2]
                st = PM.level_facts(py, w.stateful, meth)
                if st is None:
                    continue
                binds = {}
                for rec in st.paths:
                    for a, b in rec['binds']:
                        for x, y in ((a, b), (b, a)):
                            if x[0] == 'slot' and y[0] == 'param':
                                binds[y[1]] = x
                params = [a.arg for a in st.node.args.args[1:]]
                used = {}
                probs = []
                for pname, arg in list(zip(params, c[2])) + [(k_, v_) for k_, v_ in c[3] if k_ in params]:
                    s = slot_of(arg)
                    if s is None:
                        if pname in binds:
                            # the tracker compares this parameter with a stack slot: anything else (the bottom of the stack, a fresh
                            # object) replays another call, or none
                            from ..core.pyeval import show as _sh
                            probs.append(f'{pname} is `{_sh(arg)[:40]}`, not the stack slot the tracker expects ({_slot_txt(binds[pname])})')
                        continue
                    if pname in binds and binds[pname] != s:
                        probs.append(f'{pname} is read from {_slot_txt(s)} but the tracker expects it at {_slot_txt(binds[pname])}')
                    if s in used.values():
                        probs.append(f'{pname} and {[k for k, v in used.items() if v == s][0]} are read from the same slot {_slot_txt(s)}')
                    used[pname] = s
                # every parameter the method requires is supplied (a star argument is not counted): a parameter the tracker binds
                # to a stack slot that is left out replays nothing - the call fails
                n_def = len(st.node.args.defaults)
                required = params[:len(params) - n_def] if n_def else params
                if not any(isinstance(a_, tuple) and a_[:1] == ('star',) for a_ in c[2]):
                    given = set(params[:len(c[2])]) | {k_ for k_, _v in c[3]}
                    miss = [p_ for p_ in required if p_ not in given]
                    if miss or len(c[2]) > len(params):
                        probs.append(f'the call supplies {len(c[2]) + len(c[3])} argument(s); {meth} takes ({", ".join(params)})'
                                     + (f' - {miss} missing' if miss else ''))
                ctx.ob('reader-slots', f'{op}/{meth}', not probs, f'{op}: ' + '; '.join(probs), where,
                       facts={'reader': {k: _slot_txt(v) for k, v in used.items()}, 'tracker': {k: _slot_txt(v) for k, v in binds.items()}})
                # (3a) Load: the entry replayed is the memory entry the operand read addresses
                if op == 'Load' and meth == 'load' and 'term' in params:
                    targ = dict(zip(params, c[2])).get('term')
                    reads_ = [x[-1] for x in rd if x[0] == 'S']
                    ok_l = targ is not None and len(reads_) == 1 and targ == ('sub', ('attr', INTERP, 'memory'), reads_[0])
                    from ..core.pyeval import show as _sh2
                    ctx.ob('reader-slots', 'Load/term-is-memory-at-operand', ok_l,
                           f'Load must replay load(<label>, interpreter.memory[<the operand read>]); the term handed over is '
                           f'`{_sh2(targ)[:60] if targ is not None else "?"}`', where)
                # (3b) operand order: the k-th operand the serializer writes comes from parameter p_k of the call; the deserializer must
                #      hand the k-th operand it reads to that same parameter (a swap replays another term although the layout agrees)
                for meth_w, case in writer[op]:
                    if meth_w != meth:
                        continue
                    W = []
                    for o in case['operands']:
                        if o[0] in ('scalar', 'len') and o[1][0] == 'param':
                            W.append(o[1][1])
                        elif o[0] == 'names' and o[1][0] == 'param' and W and W[-1] == o[1][1]:
                            continue
                        else:
                            W = None
                            break
                    if not W:
                        continue
                    R = []
                    for x in rd:
                        if x[0] in ('S', 'L'):
                            R.append(x[-1])
                        elif x[0] == 'rep' and x[1] == 'L' and x[2][0] == 'const':
                            R.extend(('item', x[-1], j) for j in range(x[2][1]))
                        else:
                            R = None
                            break
                    if R is None or len(R) != len(W) or len(set(R)) != len(R):
                        continue                      # layout disagreement is rule reader-layout; identical reads cannot be told apart
                    def seq_items(v):
                        """the elements of a counted sequence of reads, of its reversal, or of a constant slice of it; else None"""
                        reps = [x for x in rd if x[0] == 'rep' and x[-1] == v and x[2][0] == 'const']
                        if len(reps) == 1:
                            return [('item', v, j) for j in range(reps[0][2][1])]
                        if v[0] == 'call' and v[1] in (('name', 'reversed'), ('name', 'list'), ('name', 'tuple')) and len(v[2]) == 1:
                            inner = seq_items(v[2][0])
                            return None if inner is None else (inner[::-1] if v[1][1] == 'reversed' else inner)
                        if v[0] == 'sub' and isinstance(v[2], tuple) and v[2][0] == 'slice':
                            inner = seq_items(v[1])
                            b = [None if x is None else (x[1] if x[0] == 'const' else ...) for x in v[2][1:4]]
                            if inner is None or ... in b:
                                return None
                            return inner[slice(*b)]
                        return None

                    args = []
                    for a in c[2]:
                        if a[0] == 'star':
                            its = seq_items(a[1])
                            if its is None:
                                break                 # positions after an unpacked sequence of unknown length are unknown
                            args.extend(its)
                        elif a[0] == 'sub' and a[2][0] == 'const' and isinstance(a[2][1], int) and seq_items(a[1]) is not None \
                                and -len(seq_items(a[1])) <= a[2][1] < len(seq_items(a[1])):
                            args.append(seq_items(a[1])[a[2][1]])
                        else:
                            args.append(a)
                    got_by_param = dict(zip(params, args))
                    got_by_param.update({k_: v_ for k_, v_ in c[3] if k_ in params})
                    ctx.require(all(pn in got_by_param for pn in W),
                                f'deserialize_instructions/{op}: cannot tell which argument of {meth}() receives the operands read '
                                f'(unpacked sequence that is not a counted sequence of reads)')
                    wrong = [f'operand {k + 1} (written from `{pn}`) is passed as ' +
                             (f'`{[q for q, v in got_by_param.items() if v == R[k]][0]}`' if R[k] in got_by_param.values() else 'no argument')
                             for k, pn in enumerate(W) if got_by_param.get(pn) != R[k]]
                    ctx.ob('reader-order', f'{op}/{meth}', not wrong, f'{op}: ' + '; '.join(wrong)
                           + ' - the replayed call differs from the recorded one although the layout agrees', where,
                           facts={'written from': W})
                # (4) element type of constraint lists: the serializer reads `.name` of each element
                if op == 'MetaVar':
                    names_ops = [o for _m, c2 in writer[op] for o in c2['operands'] if o[0] == 'names']
                    raw_lists = [a for a in c[2][1:] if _is_raw_int_tuple(a)]
                    ok = not (names_ops and raw_lists)
                    ctx.ob('reader-types', 'MetaVar/constraint-elements', ok,
                           'the serializer writes `var.name` of each constraint element (EVar/SVar objects) but the deserializer passes '
                           'bare ints to metavar(); re-serializing the replayed call fails', where)
    ctx.ob('decode-loop', 'handlers-read-through-checked-reader', not direct_mb,
           f'the branch(es) {sorted(set(direct_mb))} read an operand with the end-aware reader directly: at end of input they get None instead '
           f'of an error', where0)
    writer_lossless(ctx, py, w)
    # a Load written with the slot of another entry replays a different term (shared with C04 / C02): memory slots must be counted
    # alike by writer and machine, and the operand must be the index of the very term loaded
    from ..core import machine as M_
    from ..core.rustfacts import Rust as Rust_
    from . import c04 as c04_
    c04_.memory_and_load(ctx, py, w, M_.rust_arms(Rust_.get()))
    # every handled opcode that nobody writes is harmless; report count
    ctx.analysed['writer opcodes'] = len(writer)
    ctx.analysed['reader branches'] = len(handled)
    ctx.floor('reader-table', 22)
    ctx.floor('reader-layout', 18)
    ctx.floor('reader-pairing', 2)
    ctx.floor('writer-emits', 24)
    ctx.explanation = (
        'Writer/reader table agreement between SerializingInterpreter and deserialize_instructions, both extracted from the ast on every '
        'run: every written opcode has a reader branch; operand layouts are equal; the replayed interpreter call writes the same opcode '
        'again; stack slots read for a call are distinct and are the slots the tracker binds those parameters to; constraint-list element '
        'types match; Publish has a branch per phase calling that phase\'s publish method; the decoding loop ends only on end of input and '
        'unknown bytes raise. Equality of the replayed state on concrete modules is not observed.')
    ctx.assumptions = ['python ast is faithful', 'tracker slot bindings as extracted for C04/C02']


def seq_order(v, n_name):
    """tiny algebra over the sequences of the Instantiate branch.  -> ('ids'|'slots', 'fwd'|'rev') | ('pairs', a, b, order) | ('unordered', why) | None
    canonical forward order: ids as read from the stream; stack slots from the top downwards"""
    if v[0] == 'comp' and v[1] in ('listcomp', 'gen') and v[2][0] == 'call' and v[2][1] == ('name', 'next_byte') and len(v[3]) == 1:
        it = v[3][0][1]
        cnt = it[2][0] if it[0] == 'call' and it[1] == ('name', 'range') and len(it[2]) == 1 else None
        return ('ids', 'fwd', cnt)
    if v[0] == 'comp' and v[1] in ('listcomp', 'gen') and len(v[3]) == 1 and not v[3][0][2]:
        # [(a, b) for a, b in S] / [x for x in S]: the elements of S in order
        names = [x.strip() for x in v[3][0][0].strip('()').split(',')]
        same = v[2] == ('bound', names[0]) if len(names) == 1 else v[2] == ('tuple', tuple(('bound', x) for x in names))
        if same:
            return seq_order(v[3][0][1], n_name)
    if v[0] == 'sub' and v[1] == ISTACK and v[2][0] == 'slice':
        lo, hi = v[2][1], v[2][2]
        # stack[-(n + 1):-1]  = the n items below the top, bottom to top
        if hi == ('const', -1) and lo is not None and lo[0] == 'unop' and lo[1] == 'USub':
            # -(n + 1): the count of entries taken is n
            o = lo[2]
            cnt = None
            if o[0] == 'binop' and o[1] == 'Add' and ('const', 1) in (o[2], o[3]):
                cnt = o[3] if o[2] == ('const', 1) else o[2]
            return ('slots', 'rev', cnt)
        return None
    if v[0] == 'call' and v[1][0] == 'name':
        f, args = v[1][1], v[2]
        if f in ('list', 'tuple', 'iter') and len(args) == 1:
            return seq_order(args[0], n_name)
        if f == 'map' and len(args) == 2:
            return seq_order(args[1], n_name)
        if f == 'reversed' and len(args) == 1:
            inner = seq_order(args[0], n_name)
            if inner is None:
                return None
            if inner[0] == 'pairs':
                return ('pairs', inner[1], inner[2], 'rev' if inner[3] == 'fwd' else 'fwd')
            if inner[0] == 'unordered':
                return inner
            return (inner[0], 'rev' if inner[1] == 'fwd' else 'fwd') + tuple(inner[2:])
        if f == 'sorted' and len(args) >= 1:
            inner = seq_order(args[0], n_name)
            return ('unordered', f'{inner[0] if inner else "values"} are re-ordered by value (sorted)')
        if f == 'zip' and len(args) == 2:
            a, b = seq_order(args[0], n_name), seq_order(args[1], n_name)
            if a is None or b is None:
                return None
            if 'unordered' in (a[0], b[0]):
                return a if a[0] == 'unordered' else b
            return ('pairs', a, b, 'fwd')
        if f == 'dict' and len(args) == 1:
            return seq_order(args[0], n_name)
    return None


def instantiate_pairing(ctx, py, calls_per_path, where):
    """the writer pairs the i-th id with the i-th value from the top of the stack (C02 id-plug-pairing); the reader must rebuild the
    map with the same pairing, and insert the entries bottom-to-top (the order the tracker compares delta.values() with)"""
    n = 0
    for p, calls in calls_per_path:
        for c in calls:
            if c[1][2] not in ('instantiate', 'instantiate_pattern') or len(c[2]) < 2:
                continue
            n += 1
            so = seq_order(c[2][1], None)
            ok, why = False, f'cannot establish how ids and stack slots are paired in {show(c[2][1])[:80]}'
            undecided = so is None
            if so is not None:
                if so[0] == 'unordered':
                    ok, why = False, f'{so[1]} before being paired with the stack slots: the i-th id no longer meets the i-th plug'
                elif so[0] == 'pairs':
                    a, b, order = so[1], so[2], so[3]
                    kinds = {a[0], b[0]}
                    if kinds != {'ids', 'slots'}:
                        ok, why = False, 'the map is not built from the ids read and the stack slots'
                    else:
                        ids = a if a[0] == 'ids' else b
                        slots = b if a[0] == 'ids' else a
                        positional = ids[1] == slots[1]          # i-th id <-> i-th from the top (both forward or both reversed)
                        # the plugs are the n entries directly below the top, n being the number of ids read
                        def count_of(v):
                            # len([.. for _ in range(X)]) is X
                            if v is not None and v[0] == 'call' and v[1] == ('name', 'len') and len(v[2]) == 1 and v[2][0][0] == 'comp' \
                                    and len(v[2][0][3]) == 1 and not v[2][0][3][0][2]:
                                it_ = v[2][0][3][0][1]
                                if it_[0] == 'call' and it_[1] == ('name', 'range') and len(it_[2]) == 1:
                                    return it_[2][0]
                            return v
                        run_ok = len(ids) > 2 and len(slots) > 2 and ids[2] is not None and count_of(ids[2]) == count_of(slots[2])
                        keys_first = a[0] == 'ids'                 # dict(zip(<ids>, <plugs>)): the ids are the keys
                        # insertion order: zip runs in the direction of its operands; `order` flips it once more
                        zip_dir = ids[1]                          # 'fwd' = top first
                        final_dir = zip_dir if order == 'fwd' else ('rev' if zip_dir == 'fwd' else 'fwd')
                        bottom_up = final_dir == 'rev'
                        ok = positional and bottom_up and run_ok and keys_first
                        why = ('' if ok else
                               'the plugs are not the n entries directly below the top of the stack, n being the number of ids read '
                               f'(ids: {show(ids[2]) if len(ids) > 2 and ids[2] else "?"}, slice: {show(slots[2]) if len(slots) > 2 and slots[2] else "?"} + 1)'
                               if not run_ok else
                               'the map is keyed by the plugs and valued by the ids' if not keys_first else
                               ('the i-th id read is paired with the i-th slot from the BOTTOM of the plug run; the serializer (and the checker) '
                                'pair it with the i-th from the top' if not positional else
                                'the entries are inserted top-first; the tracker compares list(delta.values()) with the stack bottom-to-top'))
            if undecided:
                raise AnalysisError('deserialize_instructions/Instantiate: ' + why)
            ctx.ob('reader-pairing', f'Instantiate/{c[1][2]}', ok, why, where, facts={'sequence': str(so)})
    return n


def _slot_txt(s):
    if s[0] == 'slot':
        return f'stack[-{s[1]}]'
    return f'the {show(s[2]) if isinstance(s[2], tuple) else s[2]} items below the top {s[1]}'


def _is_raw_int_tuple(a) -> bool:
    """value produced by read_list(): a tuple of ints (directly or through a generator unpacking)"""
    s = repr(a)
    return 'read_list' in s


def writer_emits(ctx, py, w):
    """every accepting path of every serializer override writes its instruction (a call that is tracked but not written cannot be
    replayed: the replayed machine state falls behind the serializer's; and the pretty printer, which prints one step per call,
    lists a step the binary file lacks)"""
    for meth in PM.INTERP_METHODS:
        got = w.serializer_cases(meth)
        if got is None:
            continue
        silent = [c for c in got[1] if c['opcode'] is None]
        ctx.ob('writer-emits', meth, not silent,
               f'SerializingInterpreter.{meth} has a path (under {[show(c) for c, _b in silent[0]["conds"]] if silent else ""}) that updates the '
               f'tracked state but writes no instruction', py.where(w.top.module, got[0].node))
    call_style(ctx, py)


def call_style(ctx, py):
    """what a generated method writes must not depend on HOW its caller passed the arguments: a method installed as
    `def m(self, *args, **kwargs)` that forwards both to the tracker but takes its operand bytes from `args[..]` writes no operand for
    an argument passed by keyword - the tracker is updated, the stream is one byte short and every later byte is read as something
    else (PyRepo._destar_installed records such methods when it gives them their real parameter list)."""
    for mname, cname, meth, node in getattr(py, 'call_style_operands', []):
        if cname == 'SerializingInterpreter':
            ctx.ob('writer-emits', f'{meth}/operands-whatever-the-call-style', False,
                   f'{cname}.{meth} is generated as (*args, **kwargs): the call is forwarded with its keyword arguments but the operand '
                   f'bytes are taken from the positional ones only - `{meth}(<name>=..)` is tracked and written without its operand',
                   py.where(mname, node))


# parameters that are generator-side labels, not machine state: one line of reason each
LABEL_PARAMS = {('save', 'id'): 'the name of a memory slot exists only in the generator; the machine addresses slots by index',
                ('load', 'id'): 'the name of a memory slot exists only in the generator; the machine addresses slots by index'}


def _mentions(v, needle) -> bool:
    if v == needle:
        return True
    return isinstance(v, tuple) and any(_mentions(x, needle) for x in v)


def writer_lossless(ctx, py, w):
    """a call can be replayed from its bytes only if nothing it depends on is lost: in every case of every serializer method each
    parameter is written as an operand, or tied to a stack slot by the tracker (the replay reads it from the stack), or forced to
    its default by the very condition that selects the case (the short CleanMetaVar form)"""
    ser = w.top
    n = 0
    for meth in PM.INTERP_METHODS:
        got = w.serializer_cases(meth)
        st = PM.level_facts(py, w.stateful, meth)
        if got is None or st is None:
            continue
        mf, cases = got
        params = [a.arg for a in mf.node.args.args[1:]]
        slot_bound = set()
        for rec in st.paths:
            for a, b in rec['binds']:
                for x, y in ((a, b), (b, a)):
                    if _has_slot(x):
                        for p_ in params:
                            if _mentions(y, ('param', p_)):
                                slot_bound.add(p_)
        for case in cases:
            if not case['opcode']:
                continue
            written = {p_ for p_ in params if any(_mentions(o, ('param', p_)) for o in case['operands'])}
            from ..core.wiring import forced_empty
            seq_params = [a.arg for a in mf.node.args.args[1:] if a.annotation is not None
                          and re.search(r'tuple|list|Sequence', ast.unparse(a.annotation))]
            forced = forced_empty(case['conds'], seq_params)
            lost = [p_ for p_ in params if p_ not in written and p_ not in slot_bound and p_ not in forced and (meth, p_) not in LABEL_PARAMS]
            n += 1
            ctx.ob('writer-lossless', f'{meth}->{case["opcode"]}', not lost,
                   f'{meth} written as {case["opcode"]} loses its argument(s) {lost}: not among the operands written, not a term the tracker '
                   f'ties to a stack slot, and not forced empty by the condition selecting this encoding - the replayed call differs '
                   f'from the serialised one whenever such an argument is not the default', py.where(ser.module, mf.node),
                   facts={'written': sorted(written), 'on the stack': sorted(slot_bound & set(params)), 'forced default': sorted(forced & set(params))})
    ctx.floor('writer-lossless', 24)


def _has_slot(v) -> bool:
    if isinstance(v, tuple) and v and v[0] in ('slot', 'run'):
        return True
    return isinstance(v, tuple) and any(_has_slot(x) for x in v)


def publish_phases(ctx, py, acc, calls_per_path, where):
    seen = {}
    for p, calls in calls_per_path:
        phase = None
        for c, b in p.conds:
            if b is True and c[0] == 'cmp' and c[1] == '==':
                for side in (c[2], c[3]):
                    if side[0] == 'attr' and side[1] == ('name', 'ExecutionPhase'):
                        phase = side[2]
        pubs = [c[1][2] for c in calls if c[1][2].startswith('publish_')]
        if phase is not None:
            seen.setdefault(phase, []).extend(pubs)
        else:
            seen.setdefault('<no phase test>', []).extend(pubs)
    for ph, meth in PHASES.items():
        got = seen.get(ph)
        ok = got is not None and meth in got and all(g == meth for g in got)
        ctx.ob('reader-publish', ph, ok,
               f'Publish in the {ph} phase must replay {meth}; the deserializer '
               + (f'calls {sorted(set(got))}' if got else 'has no branch for this phase (the instruction is skipped)'), where,
               facts={'calls': got})
    # what is published is what is on top of the stack: the claim handed to publish_claim in the claim phase, and the theorem the
    # expected claim is compared with in the proof phase (an error exactly when they differ)
    TOP = ('slot', 1)
    for p, calls in calls_per_path:
        phase = None
        for c, b in p.conds:
            if b is True and c[0] == 'cmp' and c[1] == '==':
                for side in (c[2], c[3]):
                    if side[0] == 'attr' and side[1] == ('name', 'ExecutionPhase'):
                        phase = side[2]
        if phase == 'Claim':
            for c in calls:
                if c[1][2] == 'publish_claim' and len(c[2]) == 1:
                    ctx.ob('reader-publish', 'Claim/operand-is-the-top', slot_of(c[2][0]) == TOP,
                           f'the claim published in the claim phase is `{show(c[2][0])[:50]}`, not the top of the stack', where)
    cmp_paths = []
    for p in list(acc) + [q for q in getattr(publish_phases, '_raising', [])]:
        for c, b in p.conds:
            if c[0] == 'cmp' and c[1] in ('!=', '==') and any(_mentions(x, 'conclusion') for x in (c[2], c[3])):
                differs = b if c[1] == '!=' else (not b)
                th = c[2] if _mentions(c[2], 'conclusion') else c[3]
                cmp_paths.append((p, differs, th))
    for p, differs, th in cmp_paths:
        ends_raising = p.end[0] == 'raise'
        base = th[1] if th[0] == 'attr' and th[2] == 'conclusion' else None
        ctx.ob('reader-publish', 'Proof/compared-with-the-top', base is not None and slot_of(base) == TOP and ends_raising == differs,
               'in the proof phase the expected claim must be compared with the conclusion of the TOP of the stack, and an error raised '
               f'exactly when they differ (compared: `{show(th)[:50]}`; the path on which they {"differ" if differs else "agree"} '
               f'{"raises" if ends_raising else "returns"})', where)
    fall = seen.get('<no phase test>')
    ctx.ob('reader-publish', 'else-raises', not fall and len(acc) <= 3 or False if fall else True,
           'a Publish that matches no phase must raise', where)
