"""C11 - substitution and instantiation obey their algebra: per-constructor agreement with the textbook table."""
from __future__ import annotations

from ..core import pypattern as PP, rustsubst as RS
from ..core.pyeval import PyEval, show
from ..core.pyfacts import PyRepo
from ..core.rustfacts import Rust
from ..spec import substitution as SS
from . import c05

LEVEL = 'other'
SELF = ('param', 'self')
DELTA = ('param', 'delta')


def python_half(ctx, py: PyRepo):
    for meth, kind in (('apply_esubst', 'e'), ('apply_ssubst', 's')):
        spec = SS.subst_table(kind, 'python')
        for v in spec:
            fn = py.method(v, meth, 'pattern')
            got = PP.subst_method_outcomes(py, v, meth)
            m = RS.compare(v, got, spec[v])
            ctx.ob('subst-arm', f'python/{meth}/{v}', m is None, m or '', py.where('pattern', fn),
                   facts={'code': [(sorted(map(str, c)), RS.show(o)) for c, o in got],
                          'table': [(sorted(map(str, c)), RS.show(o)) for c, o in spec[v]]})
    spec = SS.inst_table()
    for v in spec:
        fn = py.method(v, 'instantiate', 'pattern')
        got = PP.subst_method_outcomes(py, v, 'instantiate')
        m = RS.compare(v, got, spec[v])
        ctx.ob('subst-arm', f'python/instantiate/{v}', m is None, m or '', py.where('pattern', fn),
               facts={'code': [(sorted(map(str, c)), RS.show(o)) for c, o in got],
                      'table': [(sorted(map(str, c)), RS.show(o)) for c, o in spec[v]]})
    # the stub constraint check: MetaVar.can_be_replaced_by must not silently refuse or accept selectively without the table knowing
    # notation node ------------------------------------------------------------------------------------------------
    for meth in ('apply_esubst', 'apply_ssubst'):
        fn = py.method('Instantiate', meth, 'pattern')
        verdict, why = PP.notation_op_verdict(py, meth)
        ctx.require(verdict != 'undecided', why)
        ctx.ob('subst-arm', f'python/{meth}/Instantiate', verdict == 'delegates', why, py.where('pattern', fn))
    simultaneity(ctx, py)
    # Instantiate.instantiate merges only the entries of delta whose key is a metavariable of the body: `metavars()` deciding that
    # is part of the instantiation algebra (a metavariable it loses is silently not instantiated) - shared with C12
    from .c12 import metavars_arms
    metavars_arms(ctx, py)
    # the capture checks of the binder arms ask `plug.evar_is_free(bound variable)`: a freshness answer that is "fresh" where the
    # variable may occur lets the substitution go under the binder and capture it (shared with C06 / C07)
    from . import c06
    c06.python_half(ctx, py)


def simultaneity(ctx, py: PyRepo):
    fn = py.method('Instantiate', 'instantiate', 'pattern')
    where = py.where('pattern', fn)
    ev = PyEval(resolver=PP.private_helper_resolver(py, 'Instantiate'))       # the two parts of the map may be built by private helpers
    rets = [p for p in ev.paths(fn) if p.end[0] == 'return']
    ctx.require(rets, 'Instantiate.instantiate has no returning path')
    for i, p in enumerate(rets):
        ok, why = simultaneous(p.end[1], p)
        ctx.ob('simultaneous-instantiate', f'Instantiate.instantiate/path{i}', ok, why, where, facts={'returns': show(p.end[1])})


def _strip_frozendict(v):
    while v[0] == 'call' and v[1] == ('name', 'frozendict') and len(v[2]) == 1:
        v = v[2][0]
    return v


def simultaneous(v, path=None):
    """(ok, reason): the result applies ONE map to the untouched body (or delegates to the expansion).  The map is read in the normal
    form of core/mapparts.py, so a merge of comprehensions and an accumulation loop are the same thing."""
    from ..core.mapparts import map_parts
    if v == ('call', ('attr', ('call', ('attr', SELF, 'simplify'), (), ()), 'instantiate'), (DELTA,), ()):
        return True, ''
    if not (v[0] == 'call' and v[1] == ('name', 'Instantiate') and len(v[2]) == 2):
        return False, f'result {show(v)} is neither Instantiate(self.pattern, <one merged map>) nor the instantiated expansion'
    body, m = v[2]
    if body != ('attr', SELF, 'pattern'):
        if 'instantiate' in repr(body):
            return False, (f'the body is instantiated first ({show(body)}) and the stored map is applied afterwards: a sequential '
                           f'composition - plugs of the first map that mention keys of the second are instantiated twice')
        return False, f'the body of the result is {show(body)}, not the untouched notation body'
    parts = map_parts(path, m) if path is not None else None
    if parts is None:
        return False, f'map outside the subset: {show(m)[:120]}'
    STORED = ('call', ('attr', ('attr', SELF, 'inst'), 'items'), (), ())
    GIVEN = ('call', ('attr', DELTA, 'items'), (), ())
    have_inst = have_delta = False
    kept_sources = []
    for part in parts:
        elem = ('elem', part.source)
        K, V = ('item', elem, 0), ('item', elem, 1)
        if part.source == STORED:
            disjoint = ('call', ('attr', ('call', ('attr', V, 'metavars'), (), ()), 'isdisjoint'), (DELTA,), ())
            for conds, key, val in part.alts:
                if key != K:
                    return False, f'a stored entry is re-keyed as {show(key)}'
                if val == V:
                    # a stored plug none of whose metavariables is instantiated equals its instantiation: sharing it is the same entry
                    if (disjoint, True) not in conds:
                        return False, 'stored plugs are carried over without being instantiated with delta'
                    kept_sources.append(part)
                    continue
                if val != ('call', ('attr', V, 'instantiate'), (DELTA,), ()):
                    return False, f'stored plugs are carried over as {show(val)} instead of being instantiated with delta'
                for c, pol in conds:
                    complement = (c == disjoint and pol is False) or (c[0] == 'cmp' and c[1] == 'in' and c[2] == K and pol is False
                                                                      and any(_strip_frozendict(c[3]) == kp.raw for kp in kept_sources))
                    if not complement:
                        return False, f'stored plugs are instantiated only under `{show(c)}` = {pol}: the others are dropped from the map'
                have_inst = True
            if part.kind == 'loop' and part.skips and not kept_sources:
                return False, 'some stored entries are left out of the rebuilt map'
        elif part.source == GIVEN:
            for conds, key, val in part.alts:
                if key != K or val != V:
                    return False, 'entries of delta are altered while being merged'
                if (('cmp', 'in', K, ('attr', SELF, 'inst')), False) not in conds:
                    return False, 'entries of delta are merged without excluding the keys the notation already binds (k not in self.inst)'
                # the only other filter that loses nothing: "k occurs in the body" (an entry for a metavariable that does not occur is
                # immaterial).  Any further condition drops an entry that IS needed.
                for c, pol in conds:
                    if c == ('cmp', 'in', K, ('attr', SELF, 'inst')) and pol is False:
                        continue
                    occurs = c[0] == 'cmp' and c[1] == 'in' and c[2] == K and 'metavars' in repr(c[3]) and pol is True
                    if not occurs:
                        return False, (f'entries of delta are merged only under `{show(c)}` = {pol}: an entry for a metavariable that occurs in '
                                       f'the body and is not bound by the notation is dropped')
                have_delta = True
        else:
            return False, f'map component ranges over {show(part.source)}'
    if not have_inst:
        return False, 'the stored map is dropped'
    if not have_delta:
        return False, 'metavariables of the body that the stored map leaves free are not instantiated (delta is not merged)'
    return True, ''


def run(ctx):
    r = Rust.get()
    py = PyRepo.get()
    c05.subst_conformance(ctx, r)
    python_half(ctx, py)
    ctx.floor('subst-arm', 29 + 32)
    ctx.floor('simultaneous-instantiate', 1)
    ctx.explanation = (
        'apply_esubst, apply_ssubst and instantiate of every Python pattern class (ast path evaluation) and the Rust apply_esubst / '
        'apply_ssubst / instantiate_internal arms (MIR path evaluation; the Option "unchanged" protocol and the `if not delta` shortcut '
        'normalised to the term they denote) are compared, on all valuations of their conditions, with the textbook per-constructor table: '
        'replace exactly the free occurrences, shadowing at the own binder, deferred on metavariables and pending substitutions, '
        'distribute over every constructor, pending substitutions resolved at instantiation. The notation node substitutes in its '
        'expansion and instantiates with ONE merged map over the untouched body (a body instantiated first is a sequential composition '
        'and is flagged). By induction this gives the listed laws for all patterns; the composition law as an equation over all maps '
        'is not evaluated.')
    ctx.assumptions = ['spec/substitution.py (textbook table)', 'pending substitutions have a well-formed head (C01 S2)',
                       'MetaVar.can_be_replaced_by is the stub that accepts everything (branches on it are ignored)']
