"""C11 - substitution and instantiation obey their algebra: per-constructor agreement with the textbook table."""
from __future__ import annotations

from ..core import pypattern as PP, rustsubst as RS
from ..core.pyeval import PyEval, show
from ..core.pyfacts import PyRepo
from ..core.rustfacts import Rust
from ..spec import substitution as SS
from . import c05

LEVEL = 'other'
SELF = ('param', 'self')
DELTA = ('param', 'delta')


def python_half(ctx, py: PyRepo):
    for meth, kind in (('apply_esubst', 'e'), ('apply_ssubst', 's')):
        spec = SS.subst_table(kind, 'python')
        for v in spec:
            fn = py.method(v, meth, 'pattern')
            got = PP.subst_method_outcomes(py, v, meth)
            m = RS.compare(v, got, spec[v])
            ctx.ob('subst-arm', f'python/{meth}/{v}', m is None, m or '', py.where('pattern', fn),
                   facts={'code': [(sorted(map(str, c)), RS.show(o)) for c, o in got],
                          'table': [(sorted(map(str, c)), RS.show(o)) for c, o in spec[v]]})
    spec = SS.inst_table()
    for v in spec:
        fn = py.method(v, 'instantiate', 'pattern')
        got = PP.subst_method_outcomes(py, v, 'instantiate')
        m = RS.compare(v, got, spec[v])
        ctx.ob('subst-arm', f'python/instantiate/{v}', m is None, m or '', py.where('pattern', fn),
               facts={'code': [(sorted(map(str, c)), RS.show(o)) for c, o in got],
                      'table': [(sorted(map(str, c)), RS.show(o)) for c, o in spec[v]]})
    # the stub constraint check: MetaVar.can_be_replaced_by must not silently refuse or accept selectively without the table knowing
    # notation node ------------------------------------------------------------------------------------------------
    for meth in ('apply_esubst', 'apply_ssubst'):
        fn = py.method('Instantiate', meth, 'pattern')
        verdict, why = PP.notation_op_verdict(py, meth)
        ctx.require(verdict != 'undecided', why)
        ctx.ob('subst-arm', f'python/{meth}/Instantiate', verdict == 'delegates', why, py.where('pattern', fn))
    simultaneity(ctx, py)


def simultaneity(ctx, py: PyRepo):
    fn = py.method('Instantiate', 'instantiate', 'pattern')
    where = py.where('pattern', fn)
    ev = PyEval()
    rets = [p for p in ev.paths(fn) if p.end[0] == 'return']
    ctx.require(rets, 'Instantiate.instantiate has no returning path')
    for i, p in enumerate(rets):
        ok, why = simultaneous(p.end[1])
        ctx.ob('simultaneous-instantiate', f'Instantiate.instantiate/path{i}', ok, why, where, facts={'returns': show(p.end[1])})


def _strip_frozendict(v):
    while v[0] == 'call' and v[1] == ('name', 'frozendict') and len(v[2]) == 1:
        v = v[2][0]
    return v


def simultaneous(v):
    """(ok, reason): the result applies ONE map to the untouched body (or delegates to the expansion)"""
    if v == ('call', ('attr', ('call', ('attr', SELF, 'simplify'), (), ()), 'instantiate'), (DELTA,), ()):
        return True, ''
    if not (v[0] == 'call' and v[1] == ('name', 'Instantiate') and len(v[2]) == 2):
        return False, f'result {show(v)} is neither Instantiate(self.pattern, <one merged map>) nor the instantiated expansion'
    body, m = v[2]
    if body != ('attr', SELF, 'pattern'):
        if 'instantiate' in repr(body):
            return False, (f'the body is instantiated first ({show(body)}) and the stored map is applied afterwards: a sequential '
                           f'composition - plugs of the first map that mention keys of the second are instantiated twice')
        return False, f'the body of the result is {show(body)}, not the untouched notation body'
    m = _strip_frozendict(m)
    parts = []
    if m[0] == 'dict':
        for k, val in m[1]:
            if k != ('const', '**'):
                return False, 'merged map with literal keys'
            parts.append(_strip_frozendict(val))
    elif m[0] == 'binop' and m[1] == 'BitOr':
        parts = [_strip_frozendict(m[2]), _strip_frozendict(m[3])]
    else:
        parts = [m]
    have_inst = have_delta = False
    kept_parts = []
    for part in parts:
        if part[0] != 'comp' or part[1] != 'dictcomp' or len(part[3]) != 1:
            return False, f'map component outside the subset: {show(part)}'
        tgt, it, ifs = part[3][0]
        elt = part[2]
        names = [x.strip() for x in tgt.strip('()').split(',')]
        if len(names) != 2 or elt[0] != 'pair' or elt[1] != ('bound', names[0]):
            return False, f'map component outside the subset: {show(part)}'
        if it == ('call', ('attr', ('attr', SELF, 'inst'), 'items'), (), ()):
            disjoint = ('call', ('attr', ('call', ('attr', ('bound', names[1]), 'metavars'), (), ()), 'isdisjoint'), (DELTA,), ())
            if elt[2] == ('bound', names[1]) and list(ifs) == [disjoint]:
                # a stored plug none of whose metavariables is instantiated equals its instantiation: sharing it is the same map entry
                kept_parts.append(part)
                continue
            # stored plugs, each instantiated with delta
            if elt[2] != ('call', ('attr', ('bound', names[1]), 'instantiate'), (DELTA,), ()):
                return False, f'stored plugs are carried over as {show(elt[2])} instead of being instantiated with delta'
            # the instantiated part may leave out exactly the entries that were kept (or nothing)
            for c in ifs:
                complement = (c == ('not', disjoint)) or (c[0] == 'cmp' and c[1] == 'not in' and c[2] == ('bound', names[0]) and c[3] in kept_parts)
                if not complement:
                    return False, f'stored plugs are instantiated only under `{show(c)}`: the others are dropped from the map'
            have_inst = True
        elif it == ('call', ('attr', DELTA, 'items'), (), ()):
            if elt[2] != ('bound', names[1]):
                return False, 'entries of delta are altered while being merged'
            shadow = ('cmp', 'not in', ('bound', names[0]), ('attr', SELF, 'inst'))
            flat = []
            for c in ifs:
                flat.extend(c[2] if c[0] == 'boolop' and c[1] == 'and' else [c])
            if shadow not in flat:
                return False, 'entries of delta are merged without excluding the keys the notation already binds (k not in self.inst)'
            have_delta = True
        else:
            return False, f'map component ranges over {show(it)}'
    if not have_inst:
        return False, 'the stored map is dropped'
    if not have_delta:
        return False, 'metavariables of the body that the stored map leaves free are not instantiated (delta is not merged)'
    return True, ''


def run(ctx):
    r = Rust.get()
    py = PyRepo.get()
    c05.subst_conformance(ctx, r)
    python_half(ctx, py)
    ctx.floor('subst-arm', 29 + 32)
    ctx.floor('simultaneous-instantiate', 1)
    ctx.explanation = (
        'apply_esubst, apply_ssubst and instantiate of every Python pattern class (ast path evaluation) and the Rust apply_esubst / '
        'apply_ssubst / instantiate_internal arms (MIR path evaluation; the Option "unchanged" protocol and the `if not delta` shortcut '
        'normalised to the term they denote) are compared, on all valuations of their conditions, with the textbook per-constructor table: '
        'replace exactly the free occurrences, shadowing at the own binder, deferred on metavariables and pending substitutions, '
        'distribute over every constructor, pending substitutions resolved at instantiation. The notation node substitutes in its '
        'expansion and instantiates with ONE merged map over the untouched body (a body instantiated first is a sequential composition '
        'and is flagged). By induction this gives the listed laws for all patterns; the composition law as an equation over all maps '
        'is not evaluated.')
    ctx.assumptions = ['spec/substitution.py (textbook table)', 'pending substitutions have a well-formed head (C01 S2)',
                       'MetaVar.can_be_replaced_by is the stub that accepts everything (branches on it are ignored)']
