"""C04 - the generator-side tracker (StatefulInterpreter) simulates the machine: per-call effect tables agree."""
from __future__ import annotations

import ast

from ..core import machine as M, pymachine as PM
from ..core.pyeval import show
from ..core.pyfacts import PyRepo
from ..core.rustfacts import Rust
from ..core.wiring import Wiring, _ann, _ret_kind

LEVEL = 'other'
PHASE_OF = {'publish_axiom': 'Gamma', 'publish_claim': 'Claim', 'publish_proof': 'Proof'}


def py_kind(ann: str) -> str:
    has_pat = 'Pattern' in ann or 'MetaVar' in ann
    has_prf = 'Proved' in ann
    if has_pat and has_prf:
        return 'any'
    if has_prf:
        return 'Proved'
    return 'Pattern'


def rust_effect(case) -> dict:
    pops, sym = [], None
    for r in case['reads']:
        if r[0] == 'pop':
            pops.append(r[2])
        elif r[0] == 'loop':
            inner = [x for x in r[2] if x[0] == 'pop']
            if inner:
                sym = (M.show_val(r[1][1]), [x[2] for x in inner])
    eff = {'pops': pops, 'loop_pops': sym, 'stack': [], 'memory': [], 'claims_push': 0,
           'claims_pop': sum(1 for r in case['reads'] if r[0] == 'claimpop'),
           'peek': any(r[0] == 'peek' for r in case['reads'])}
    for e in case['effects']:
        if e[1] == 'stack':
            eff['stack'].append(e[2].split('::')[1])
        elif e[1] == 'memory':
            eff['memory'].append(e[2].split('::')[1])
        elif e[1] == 'claims':
            eff['claims_push'] += 1
    return eff


def memory_and_load(ctx, py, w, arms, mem_py=None, mem_rs=None):
    if mem_py is None:
        mem_py, mem_rs = set(), set()
        for meth in PM.INTERP_METHODS:
            st = PM.level_facts(py, w.stateful, meth)
            got = w.serializer_cases(meth)
            if st is None or got is None:
                continue
            if any(rec['mem'] for rec in st.paths):
                mem_py.add(meth)
            # a memory append that does not happen on every accepting path is a different event count
            if any(rec['mem'] for rec in st.paths) and not all(rec['mem'] for rec in st.paths):
                ctx.ob('memory-events', f'conditional-append/{meth}', False,
                       f'StatefulInterpreter.{meth} appends to memory on some paths only; the machine appends on every {meth}',
                       py.where(w.stateful.module, st.node))
            for c in got[1]:
                op = c['opcode']
                for ap in arms.get(op, []):
                    if ap.end != 'next':
                        continue
                    cs = M.to_case(ap)
                    if meth in PHASE_OF and (('variant', ('param', 'phase')), PHASE_OF[meth]) not in cs['conds']:
                        continue
                    if any(e[1] == 'memory' for e in cs['effects']):
                        mem_rs.add(op + ('/' + PHASE_OF[meth] if meth in PHASE_OF else ''))
    # memory grows at the same events on both sides
    want = {'save': 'Save', 'publish_axiom': 'Publish/Gamma'}
    ctx.ob('memory-events', 'same-events', {want.get(m, m) for m in mem_py} == mem_rs,
           f'tracker appends to memory in {sorted(mem_py)}, machine in {sorted(mem_rs)}', py.where(w.stateful.module))
    # Load addressing
    got = w.serializer_cases('load')
    if got is not None:
        mf, cases = got
        where = py.where(w.top.module, mf.node)
        for c in cases:
            ops_ = c['operands']
            ok = len(ops_) == 1 and ops_[0][0] == 'scalar' and ops_[0][1] == ('call', ('attr', PM.MEM0, 'index'), (('param', 'term'),), ())
            sup = [s for s in c['rec']['supers'] if s[0] == 'load']
            ok = ok and len(sup) == 1 and sup[0][1][-1] == ('param', 'term')
            ctx.ob('load-address', 'serializer', ok,
                   'the Load operand must be self.memory.index(<the term passed to super().load>)', where,
                   facts={'operand': [show(o[1]) for o in ops_]})
        st = PM.level_facts(py, w.stateful, 'load')
        ok = all(any(cnd == ('cmp', 'in', ('param', 'term'), PM.MEM0) and b is True for cnd, b in rec['conds'])
                 and rec['pushes'] == [('param', 'term')] for rec in st.paths)
        ctx.ob('load-address', 'tracker', ok, 'StatefulInterpreter.load must require the term to be in memory and push that term',
               py.where(w.stateful.module, st.node))


def claim_queue(ctx, py, w):
    """the machine keeps the open claims on a stack and a proof-phase Publish pops THE TOP one and compares it; claims are
    published in reverse, so the top is the first declared claim still open.  The tracker simulates that only if publish_proof
    compares the proved conclusion with the HEAD of its claim list (==) and drops exactly that head on every accepting path."""
    from ..core.pyeval import PyEval
    fn = w.stateful.methods.get('publish_proof')
    ctx.require(fn is not None, 'anchor vanished: StatefulInterpreter.publish_proof')
    where = py.where(w.stateful.module, fn)
    SELF = ('param', 'self')
    PROVED = ('param', fn.args.args[1].arg)
    CL = ('attr', SELF, 'claims')
    heads = (('item', CL, 0), ('sub', CL, ('const', 0)))
    n = 0
    for p in PyEval().paths(fn):
        if p.end[0] == 'raise':
            continue
        n += 1
        compared = any(b is True and c[0] == 'cmp' and c[1] == '==' and {c[2], c[3]} in
                       [{('attr', h, 'pattern'), ('attr', PROVED, 'conclusion')} for h in heads] for c, b in p.conds)
        stores = [e.value[2] for e in p.events if e.kind == 'setattr' and e.value[0] == SELF and e.value[1] == 'claims']
        tail_ok = len(stores) == 1 and stores[0] in (('rest', CL, 1, 0), ('sub', CL, ('slice', ('const', 1), None, None)))
        ctx.ob('claim-queue', f'publish_proof/path{n}', compared and tail_ok,
               'StatefulInterpreter.publish_proof must compare the proved conclusion with the FIRST open claim (the one the machine pops) '
               'and drop exactly that one; ' + ('' if compared else 'no accepting-path test `proved.conclusion == claims[0].pattern`; ')
               + ('' if tail_ok else f'the claim list becomes {[show(x)[:60] for x in stores]} instead of its tail'), where)
    ctx.floor('claim-queue', 1)


def arity_enforced(ctx, py: PyRepo, w: Wiring):
    """the machine fails when an instruction needs more entries than the stack holds; so must the tracker.  Unpacking, indexing,
    `pop()` and comparing a slice with a list of known length all fail on a short stack.  `zip(..)` does not: it stops at the
    shorter sequence, so operands compared pairwise through zip over the tracked stack are accepted when the stack is too short
    (the slice that follows removes what is there and the emitted instruction underflows the machine)."""
    def zips_over_stack(fn):
        for n in ast.walk(fn):
            if isinstance(n, ast.Call) and isinstance(n.func, ast.Name) and n.func.id == 'zip' \
                    and not any(k.arg == 'strict' and isinstance(k.value, ast.Constant) and k.value.value is True for k in n.keywords) \
                    and any(isinstance(x, ast.Attribute) and x.attr == 'stack' and isinstance(x.value, ast.Name) and x.value.id == 'self'
                            for a in n.args for x in ast.walk(a)):
                yield n
    example = ast.parse('def h(self, *ops):\n    for e, g in zip(reversed(self.stack), reversed(ops)):\n        assert e == g\n').body[0]
    ctx.require(len(list(zips_over_stack(example))) == 1, 'arity-enforced: the detector no longer recognises its own positive example')
    n = 0
    for mname, fn in w.stateful.methods.items():
        for z in zips_over_stack(fn):
            n += 1
            ctx.ob('arity-enforced', f'{w.stateful.name}.{mname}', False,
                   f'{w.stateful.name}.{mname} compares the tracked stack with its operands through `{ast.unparse(z)[:70]}`: zip stops at the '
                   f'shorter sequence, so a call that needs more entries than the stack holds is accepted and the instruction written for it '
                   f'fails in the checker ("Insufficient stack items")', py.where(w.stateful.module, z))
    ctx.ob('arity-enforced', 'scan', True, f'{n} zip(..) comparisons over the tracked stack (detector self-checked on a positive example)', '')


def phase_sinks(ctx, py):
    """the three phases go to three streams, each checked by the machine as its own phase: after `into_claim_phase()` the IO layer
    writes to the stream it was given for the claim phase, after `into_proof_phase()` to the one for the proof phase - whatever
    phase the interpreter was created in and however many switches happened before.  Decided on the value `self.out` has when the
    method returns (private helpers of the class evaluated in place): it must be the field the constructor binds to the parameter
    of that phase.  A stream picked by position (an iterator over the later streams, a counter) is only right for an interpreter
    started in the first phase."""
    from ..core.pyeval import PyEval, Decline, show
    from ..core.pyfacts import self_method_resolver
    io = py.find_class('IOInterpreter', 'io_interpreter') if hasattr(py, 'find_class') else None
    if io is None or '__init__' not in io.methods:
        return
    SELF = ('param', 'self')
    init = io.methods['__init__']
    params = [a.arg for a in init.args.args[1:]]
    # field <- constructor parameter
    field_of = {}
    for st in ast.walk(init):
        if isinstance(st, ast.Assign) and len(st.targets) == 1 and isinstance(st.targets[0], ast.Attribute) and isinstance(st.targets[0].value, ast.Name) \
                and st.targets[0].value.id == 'self' and isinstance(st.value, ast.Name) and st.value.id in params:
            field_of[st.value.id] = st.targets[0].attr
    # the stream parameters: bound to a field each, named after the phase and not the first stream (`out`)
    streams = [p_ for p_ in params if p_ in field_of and 'out' in p_]
    want = {'into_claim_phase': next((p_ for p_ in streams if 'claim' in p_), None), 'into_proof_phase': next((p_ for p_ in streams if 'proof' in p_), None)}
    for trans, par in want.items():
        if trans not in io.methods or par is None or par not in field_of:
            continue
        fn = io.methods[trans]
        ev = PyEval(resolver=self_method_resolver(py, io, SELF, only_private=True))
        try:
            paths = [p_ for p_ in ev.paths(fn) if p_.end[0] != 'raise']
        except Decline as d:
            ctx.advisory(f'IOInterpreter.{trans}: not read by the evaluator ({d}); rule phase-sink is not instantiated')
            continue
        outs = [p_.env.get(('attr', SELF, 'out')) for p_ in paths]
        good = ('attr', SELF, field_of[par])
        ok = bool(paths) and all(o == good for o in outs)
        ctx.ob('phase-reset', f'IOInterpreter.{trans}/writes-to-its-own-stream', ok,
               f'after {trans}() the IO layer must write to `self.{field_of[par]}` (the stream given for that phase); on some path `self.out` is '
               f'{show(next((o for o in outs if o != good), None)) if paths else "?"} - the bytes of the phase land in another phase\'s stream '
               f'and the machine checking that stream ends with another claim queue than the tracker', py.where(io.module, fn))


def run(ctx):
    py = PyRepo.get()
    r = Rust.get()
    w = Wiring(py)
    arms = M.rust_arms(r)
    arity_enforced(ctx, py, w)
    mem_py, mem_rs = set(), set()
    for meth in PM.INTERP_METHODS:
        got = w.serializer_cases(meth)
        st = PM.level_facts(py, w.stateful, meth)
        ba = PM.level_facts(py, w.basic, meth)
        ctx.require(st is not None and ba is not None, f'anchor vanished: StatefulInterpreter.{meth}')
        where = py.where(w.stateful.module, st.node)
        if got is None:
            continue            # nothing is emitted for this call: reported under C02
        _mf, cases = got
        ops = sorted({c['opcode'] for c in cases if c['opcode']})
        fn = ba.node
        # --- python effect, per accepting path of the tracker
        py_effs = []
        for rec in st.paths:
            slots = {}
            for a, b in rec['binds']:
                for x, y in ((a, b), (b, a)):
                    if x[0] == 'slot' and y[0] == 'param':
                        slots[x[1]] = py_kind(_ann(st.node, y[1]))
            k = rec['k']
            pops = [slots.get(i, '?') for i in range(1, (k if isinstance(k, int) else 0) + 1)]
            peeked = [i for i in slots if isinstance(k, int) and i > k]
            sym = None
            if rec['n'] is not None:
                guarded = any((c == rec['n'] or c == ('param', 'delta') or (c[0] == 'call' and c[1] == ('name', 'len')
                                                                              and c[2] and rec['n'][0] == 'call' and c[2] == rec['n'][2]))
                              and b is True for c, b in rec['conds'])
                ctx.ob('slice-guard', f'{meth}', guarded,
                       f'{meth} slices the tracked stack with -{show(rec["n"])} without first testing that it is non-zero '
                       f'(stack[-0:] is the whole stack)', where)
                sym = show(rec['n'])
            kind = _ret_kind(fn)
            mem = []
            for m_ in rec['mem']:
                if m_[0] == 'call' and m_[1] == ('name', 'Proved'):
                    mem.append('Proved')
                elif m_[0] == 'param':
                    mem.append('same-as-top' if any(y == m_ and x == ('slot', 1) or x == m_ and y == ('slot', 1)
                                                    for x, y in rec['binds']) else py_kind(_ann(st.node, m_[1])))
                else:
                    mem.append('?')
            py_effs.append({'pops': pops, 'sym': sym, 'pushes': [kind] * len(rec['pushes']) if kind else ['?'] * len(rec['pushes']),
                            'mem': mem, 'claims_shift': rec['claims'] == 'shift', 'peeked': peeked, 'rec': rec})
            if rec['mem']:
                mem_py.add(meth)
        if any(rec['mem'] for rec in st.paths) and not all(rec['mem'] for rec in st.paths):
            ctx.ob('memory-events', f'conditional-append/{meth}', False,
                   f'StatefulInterpreter.{meth} appends to memory on some paths only; the machine appends on every {meth}', where)
        # --- rust effect for the opcode(s) this call writes
        for op in ops:
            racc = [M.to_case(ap) for ap in arms.get(op, []) if ap.end == 'next']
            if meth in PHASE_OF:
                racc = [c for c in racc if (('variant', ('param', 'phase')), PHASE_OF[meth]) in c['conds']]
            if not racc:
                continue
            reffs = [rust_effect(c) for c in racc]
            for e in reffs:
                if e['memory']:
                    mem_rs.add(op + ('/' + PHASE_OF[meth] if meth in PHASE_OF else ''))
            tag = f'{meth}->{op}'
            # compare as multisets of effect shapes
            def norm_py(e):
                return (tuple(e['pops']), e['sym'] is not None, tuple(e['pushes']), len(e['mem']), e['claims_shift'])

            def norm_rs(e):
                return (tuple(e['pops']), e['loop_pops'] is not None, tuple(e['stack']), len(e['memory']), e['claims_pop'] > 0)

            # kinds: 'any' on the rust side matches any python kind and vice versa
            def compat(p, q):
                if len(p[0]) != len(q[0]):
                    return f'pops {len(p[0])} ({", ".join(p[0]) or "-"}) vs machine {len(q[0])} ({", ".join(q[0]) or "-"})'
                for a, b in zip(p[0], q[0]):
                    if 'any' not in (a, b) and '?' not in (a, b) and a != b:
                        return f'pops a {a} where the machine pops a {b}'
                if p[1] != q[1]:
                    return 'variable-length pop on one side only'
                if len(p[2]) != len(q[2]) or any(a != b and '?' not in (a, b) for a, b in zip(p[2], q[2])):
                    return f'pushes {list(p[2])} vs machine {list(q[2])}'
                if p[3] != q[3]:
                    return f'memory appends {p[3]} vs machine {q[3]}'
                if p[4] != q[4]:
                    return f'claim consumed: {p[4]} vs machine {q[4]}'
                return None

            pset = {norm_py(e) for e in py_effs}
            rset = {norm_rs(e) for e in reffs}
            # the symbolic-pop path of the tracker (n = len(delta)) corresponds to the machine loop; its empty-map twin pops none
            problems = []
            for p_ in sorted(pset, key=repr):
                msgs = [compat(p_, q_) for q_ in rset]
                if all(msgs):
                    p2 = (p_[0], True, p_[2], p_[3], p_[4]) if not p_[1] else p_
                    msgs2 = [compat(p2, q_) for q_ in rset]
                    if all(msgs2):
                        problems.append(msgs[0])
            ctx.ob('effect', tag, not problems,
                   f'StatefulInterpreter.{meth} ' + '; '.join(problems), where,
                   facts={'python': [str(x) for x in sorted(pset, key=repr)], 'rust': [str(x) for x in sorted(rset, key=repr)]})
            # publish_claim must enqueue the claim the machine enqueues
            if meth == 'publish_claim':
                queued = any(r_['claims_push'] for r_ in reffs)
                py_queue = any(o[0] in ('append',) and 'claims' in str(o[1]) for rec in st.paths for o in rec['other'])
                ctx.ob('effect', 'publish_claim->claims-queue', (not queued) or py_queue,
                       'the machine queues the published claim; the tracker does not (its queue is pre-filled at construction)', where)
    # phase transitions: tracker clears the stack, keeps memory and claims (the machine: C05 verify-shape)
    for trans in ('into_claim_phase', 'into_proof_phase'):
        mf = PM.level_facts(py, w.stateful, trans)
        ctx.require(mf is not None, f'anchor vanished: StatefulInterpreter.{trans}')
        ok = all(('clear-stack',) in rec['other'] and not rec['mem'] and rec['claims'] is None
                 and not any(o[0] == 'set' and ('memory' in str(o[1]) or 'claims' in str(o[1])) for o in rec['other'])
                 for rec in mf.paths)
        ctx.ob('phase-reset', trans, ok, f'{trans} must clear the tracked stack and keep memory and claims',
               py.where(w.stateful.module, mf.node))
    # every interpreter class that refines a phase change passes it on: the phase field lives in the root class, the cleared stack in
    # the tracker, the switched stream in the IO layer - an override that does not call super().<same>() leaves one of them behind
    for mi_ in py.modules.values():
        for c_ in mi_.classes.values():
            chain_ = py.mro(c_)
            if not any(x.name == 'Interpreter' for x in chain_) or c_.name == 'Interpreter':
                continue
            for trans in ('into_claim_phase', 'into_proof_phase'):
                if trans not in c_.methods:
                    continue
                mf = PM.level_facts(py, c_, trans)
                if mf is None:
                    continue
                fwd = 'sub_interpreter' in ast.unparse(c_.methods[trans])
                ok = bool(mf.paths) and all(len([s_ for s_ in rec['supers'] if s_[0] == trans]) == 1
                                            or (fwd and any(sc[0] == trans for sc in rec['subcalls'])) for rec in mf.paths)
                ctx.ob('phase-reset', f'{c_.name}.{trans}/passes-on', ok,
                       f'{c_.name}.{trans} must call super().{trans}() exactly once on every path (the phase, the tracked stack and the '
                       f'output stream are switched by different classes of the chain)', py.where(c_.module, mf.node))
    phase_sinks(ctx, py)
    memory_and_load(ctx, py, w, arms, mem_py, mem_rs)
    # the terms the tracker holds are the terms the machine builds: slot / operand wiring of every call (shared with C02)
    from . import c02, c05
    py_ops = c02.py_opcodes(py)
    dec = c05.decode_table(r)
    for meth in PM.INTERP_METHODS:
        c02.method_row(ctx, w, meth, arms, py_ops, dec)
    # Pop / Save / Publish act on the TOP of the machine's stack and carry no operand: the generator names the term it means, and
    # the tracker is what ties that name to the top - on every accepting path the term parameter is asserted equal to stack[-1]
    # (docs/proof-language.md: Pop, Save, Publish). Without it the generator's view and the machine's state part company silently.
    for meth in ('pop', 'save', 'publish_proof', 'publish_axiom', 'publish_claim'):
        mf = PM.level_facts(py, w.stateful, meth)
        ctx.require(mf is not None and mf.paths, f'anchor vanished: StatefulInterpreter.{meth}')
        tparams = [q for q in mf.params if q != 'id']
        ctx.require(len(tparams) == 1, f'StatefulInterpreter.{meth}: expected one term parameter')
        want = {(('slot', 1), ('param', tparams[0])), (('param', tparams[0]), ('slot', 1))}
        ok = all(any((a, b) in want for a, b in rec['binds']) for rec in mf.paths)
        ctx.ob('effect', f'{meth}/term-is-the-top', ok,
               f'StatefulInterpreter.{meth} must accept only when `{tparams[0]}` equals the top of the tracked stack (the instruction written '
               f'for it has no operand and acts on the machine\'s top): otherwise the generator goes on with another term than the machine',
               py.where(w.stateful.module, mf.node))
    # the phases advance gamma -> claim -> proof and in no other way (the machine is run once per file, in that order)
    root = py.cls('Interpreter')
    for trans, frm, to in (('into_claim_phase', 'Gamma', 'Claim'), ('into_proof_phase', 'Claim', 'Proof')):
        mf = PM.level_facts(py, root, trans)
        ctx.require(mf is not None and mf.paths, f'anchor vanished: Interpreter.{trans}')
        F, T_ = ('attr', ('name', 'ExecutionPhase'), frm), ('attr', ('name', 'ExecutionPhase'), to)
        SP = ('attr', PM.SELF, 'phase')
        ok = all(any(b is True and c in (('cmp', '==', F, SP), ('cmp', '==', SP, F), ('cmp', 'is', SP, F), ('cmp', 'is', F, SP)) for c, b in rec['conds'])
                 and [o for o in rec['other'] if o[0] == 'set' and o[1] == 'self.phase'] == [('set', 'self.phase', T_)] for rec in mf.paths)
        ctx.ob('phase-reset', f'Interpreter.{trans}/{frm.lower()}-to-{to.lower()}', ok,
               f'Interpreter.{trans} must accept only in the {frm} phase and set the phase to {to}', py.where(root.module, mf.node))
    # the machine's Publish does one of three things depending on the phase; the generator has three calls, each of which is that
    # thing: publish_axiom only in the gamma phase, publish_claim only in the claim phase, publish_proof only in the proof phase
    for meth, ph in (('publish_axiom', 'Gamma'), ('publish_claim', 'Claim'), ('publish_proof', 'Proof')):
        mf = PM.level_facts(py, w.basic, meth)
        ctx.require(mf is not None and mf.paths, f'anchor vanished: BasicInterpreter.{meth}')
        PH = ('attr', ('name', 'ExecutionPhase'), ph)
        SP = ('attr', PM.SELF, 'phase')
        ok = all(any(b is True and c in (('cmp', '==', PH, SP), ('cmp', '==', SP, PH), ('cmp', 'is', SP, PH), ('cmp', 'is', PH, SP))
                     for c, b in rec['conds']) for rec in mf.paths)
        ctx.ob('effect', f'{meth}/only-in-the-{ph.lower()}-phase', ok,
               f'BasicInterpreter.{meth} must accept only in the {ph} phase: in another phase the Publish instruction written for it does '
               f'something else on the machine', py.where(w.basic.module, mf.node))
    # "modulo the numbering of symbols": the wiring rows identify a symbol with the number written for it, which is sound only if
    # the numbering is ONE injective table for the three streams (shared with C03)
    from . import c03
    c03.symbol_table(ctx, py)
    ctx.floor('effect', 24)
    ctx.floor('phase-reset', 2)
    claim_queue(ctx, py, w)
    # the generator applies Generalization under ITS freshness judgement, the machine under the documented one (shared with C02)
    from .c02 import judgement_agreement
    judgement_agreement(ctx, py)
    # the tracker computes the term an Instantiate leaves with the generator's substitution, the machine with the checker's: the two
    # substitution algebras are the same table (shared with C11 / C02)
    from . import c11
    c05.subst_conformance(ctx, r)
    c11.python_half(ctx, py)
    ctx.floor('load-address', 2)
    ctx.explanation = (
        'For every interpreter call the tracker\'s effect (number and Term kind of pops, pushes, memory appends, claim consumption; '
        'extracted from StatefulInterpreter with ast path evaluation) equals the effect of the opcode the serializer writes for that '
        'call (extracted from the MIR of execute_instructions, per phase for Publish); phase changes clear the stack and keep memory on '
        'both sides; memory grows at the same events; the Load operand is memory.index of the very term handed to the tracker; slices '
        'by -len(x) are guarded against the [-0:] trap. Term equality of the two states on concrete traces is not observed.')
    ctx.assumptions = ['wiring of slots into terms is decided under C02', 'rustc MIR / python ast are faithful']
