"""Table 2.5: textbook capture-avoiding substitution and simultaneous metavariable instantiation,
per constructor, as guarded outcomes over canonical atoms and terms.

Terms:  ('self',)  ('plug',)  ('var',) the substituted variable   ('f', role) a field of self
        ('rec', role) the same operation applied to a child with the same arguments
        ('inst', role) the child instantiated with the same map
        ('C', Ctor, t...) constructor in declared field order   ('lookup',) the plug the map assigns to this metavariable
        ('esubst'|'ssubst', target, var, plug) the substitution function applied to an arbitrary target
Atoms:  ('eq','n','var') ('eq','v','var')  variable name / binder equals the substituted variable
        ('fresh','e'|'s','plug','v')       the plug does not mention the binder's variable (capture check)
        ('in','var', list)                 the substituted variable is declared fresh for this metavariable
        ('has',)                           the map has an entry for this metavariable
        ('empty',)                         the map is empty          ('unchanged', role) child not affected (Rust Option protocol)
Outcome 'raise' = the operation must refuse (capture).
"""

SELF = ('self',)
PLUG = ('plug',)
VAR = ('var',)


def F(r):
    return ('f', r)


def REC(r):
    return ('rec', r)


def INST(r):
    return ('inst', r)


def C(ctor, *a):
    return ('C', ctor) + a


# children (roles of pattern-typed fields) per constructor, in field order
CHILDREN = {'EVar': [], 'SVar': [], 'Symbol': [], 'Implies': ['L', 'R'], 'App': ['L', 'R'], 'Exists': ['S'], 'Mu': ['S'],
            'MetaVar': [], 'ESubst': ['P', 'Q'], 'SSubst': ['P', 'Q']}
# constructor form of self (field roles in declared order)
FORM = {'EVar': ('n',), 'SVar': ('n',), 'Symbol': ('n',), 'Implies': ('L', 'R'), 'App': ('L', 'R'),
        'Exists': ('v', 'S'), 'Mu': ('v', 'S'), 'ESubst': ('P', 'v', 'Q'), 'SSubst': ('P', 'v', 'Q')}


def subst_table(kind: str, lang: str):
    """kind: 'e' (element variable) or 's' (set variable).  lang: 'rust' | 'python'.
    -> {Ctor: [(conds, outcome)]}"""
    own_leaf, other_leaf = ('EVar', 'SVar') if kind == 'e' else ('SVar', 'EVar')
    own_binder, other_binder = ('Exists', 'Mu') if kind == 'e' else ('Mu', 'Exists')
    wrap = 'ESubst' if kind == 'e' else 'SSubst'
    t = {}
    t[own_leaf] = [({(('eq', 'n', 'var'), True)}, PLUG), ({(('eq', 'n', 'var'), False)}, SELF)]
    t[other_leaf] = [(set(), SELF)]
    t['Symbol'] = [(set(), SELF)]
    for c in ('Implies', 'App'):
        t[c] = [(set(), C(c, REC('L'), REC('R')))]
    # One table for both languages.  Substitution goes under a binder only after the capture check of the binder's own sort
    # (otherwise it must refuse: `raise`); at its own binder it stops; on a metavariable declared fresh for the variable it is the
    # identity, otherwise deferred.  (Earlier revisions of this table had a weaker Python column - no capture checks, and a
    # Rust column without the freshness shortcut; both were genuine disagreements between generator and checker, see DESIGN.md 5.)
    own_fresh = ('fresh', kind, 'plug', 'v')
    other_fresh = ('fresh', 's' if kind == 'e' else 'e', 'plug', 'v')
    t[own_binder] = [({(('eq', 'v', 'var'), True)}, SELF),
                     ({(('eq', 'v', 'var'), False), (own_fresh, True)}, C(own_binder, F('v'), REC('S'))),
                     ({(('eq', 'v', 'var'), False), (own_fresh, False)}, 'raise')]
    t[other_binder] = [({(other_fresh, True)}, C(other_binder, F('v'), REC('S'))),
                       ({(other_fresh, False)}, 'raise')]
    lst = 'e_fresh' if kind == 'e' else 's_fresh'
    t['MetaVar'] = [({(('in', 'var', lst), True)}, SELF),
                    ({(('in', 'var', lst), False)}, C(wrap, SELF, VAR, PLUG))]
    t['ESubst'] = [(set(), C(wrap, SELF, VAR, PLUG))]          # deferred on pending substitutions
    t['SSubst'] = [(set(), C(wrap, SELF, VAR, PLUG))]
    return t


def inst_table():
    """-> {Ctor: [(conds, outcome)]} for instantiate(delta) (both languages; identity shortcuts are normalised away)"""
    t = {}
    for c in ('EVar', 'SVar', 'Symbol'):
        t[c] = [(set(), SELF)]
    for c in ('Implies', 'App'):
        t[c] = [(set(), C(c, INST('L'), INST('R')))]
    for c in ('Exists', 'Mu'):
        t[c] = [(set(), C(c, F('v'), INST('S')))]
    t['MetaVar'] = [({(('has',), True)}, ('lookup',)), ({(('has',), False)}, SELF)]
    t['ESubst'] = [(set(), ('esubst', INST('P'), F('v'), INST('Q')))]
    t['SSubst'] = [(set(), ('ssubst', INST('P'), F('v'), INST('Q')))]
    return t


# Rust: the four constraint lists that must be checked against the plug before a metavariable is replaced
CONSTRAINT_CHECKS = {'e_fresh': 'e_fresh', 's_fresh': 's_fresh', 'positive': 'positive', 'negative': 'negative'}
