"""Trusted tables 2.1 (soundness) and 2.2 (documented behaviour) for the four
judgements e_fresh / s_fresh / positive / negative and for well_formed.

Atoms (shared by the Rust and Python extractions):
  ('J', judgement, child, var)   judgement of `var` in child; child in L R S P Q; var in x (queried) v (own binder / substituted variable)
  ('eq', 'v', 'x')               queried variable equals the constructor's own variable
  ('eq', 'n', 'x')               queried variable equals the name of an EVar/SVar leaf
  ('in', 'x', list)              queried variable is listed in the MetaVar constraint list
Reasons are given per entry; derivations are in DESIGN.md section 2.1.
"""
from __future__ import annotations

VARIANTS = ['EVar', 'SVar', 'Symbol', 'Implies', 'App', 'Exists', 'Mu', 'MetaVar', 'ESubst', 'SSubst']
JUDGEMENTS = ['e_fresh', 's_fresh', 'positive', 'negative']

# role of each constructor field (the naming is part of the trusted base: an unknown field is an analysis error)
ROLES = {
    'EVar': {'0': 'n', 'name': 'n'}, 'SVar': {'0': 'n', 'name': 'n'}, 'Symbol': {'0': 'n', 'name': 'n'},
    'Implies': {'left': 'L', 'right': 'R'}, 'App': {'left': 'L', 'right': 'R'},
    'Exists': {'var': 'v', 'subpattern': 'S'}, 'Mu': {'var': 'v', 'subpattern': 'S'},
    'ESubst': {'pattern': 'P', 'evar_id': 'v', 'var': 'v', 'plug': 'Q'},
    'SSubst': {'pattern': 'P', 'svar_id': 'v', 'var': 'v', 'plug': 'Q'},
    'Instantiate': {'pattern': 'body', 'inst': 'inst'},
    'MetaVar': {'id': 'id', 'name': 'id', 'e_fresh': 'e_fresh', 's_fresh': 's_fresh', 'positive': 'positive',
                'negative': 'negative', 'app_ctx_holes': 'app_ctx_holes'},
}


def A(*a):
    return ('atom', tuple(a))


def J(j, c, v='x'):
    return A('J', j, c, v)


T = ('const', True)
EQV = A('eq', 'v', 'x')
NEQN = ('not', A('eq', 'n', 'x'))


def AND(*f):
    return ('and',) + f


def OR(*f):
    return ('or',) + f


def _kplus():
    return OR(J('s_fresh', 'P', 'v'), J('s_fresh', 'Q'),
              AND(J('positive', 'P', 'v'), J('positive', 'Q')), AND(J('negative', 'P', 'v'), J('negative', 'Q')))


def _kminus():
    return OR(J('s_fresh', 'P', 'v'), J('s_fresh', 'Q'),
              AND(J('positive', 'P', 'v'), J('negative', 'Q')), AND(J('negative', 'P', 'v'), J('positive', 'Q')))


# ---- 2.1 weakest sound condition per constructor, in terms of the children's (sound) facts -------------------
SOUND = {
    ('EVar', 'e_fresh'): NEQN,                       # x is free in the variable x only
    ('EVar', 's_fresh'): T, ('EVar', 'positive'): T, ('EVar', 'negative'): T,
    ('SVar', 'e_fresh'): T,
    ('SVar', 's_fresh'): NEQN,
    ('SVar', 'positive'): T,                         # an occurrence at the root is positive
    ('SVar', 'negative'): NEQN,                      # ... hence not negative
    ('Symbol', 'e_fresh'): T, ('Symbol', 's_fresh'): T, ('Symbol', 'positive'): T, ('Symbol', 'negative'): T,
    # a metavariable stands for any pattern meeting its constraints (enforced at instantiation: C01 S4)
    ('MetaVar', 'e_fresh'): A('in', 'x', 'e_fresh'),
    ('MetaVar', 's_fresh'): A('in', 'x', 's_fresh'),
    ('MetaVar', 'positive'): OR(A('in', 'x', 'positive'), A('in', 'x', 's_fresh')),
    ('MetaVar', 'negative'): OR(A('in', 'x', 'negative'), A('in', 'x', 's_fresh')),
    ('Implies', 'e_fresh'): AND(J('e_fresh', 'L'), J('e_fresh', 'R')),
    ('Implies', 's_fresh'): AND(J('s_fresh', 'L'), J('s_fresh', 'R')),
    ('Implies', 'positive'): AND(J('negative', 'L'), J('positive', 'R')),   # the antecedent flips polarity
    ('Implies', 'negative'): AND(J('positive', 'L'), J('negative', 'R')),
    ('App', 'e_fresh'): AND(J('e_fresh', 'L'), J('e_fresh', 'R')),
    ('App', 's_fresh'): AND(J('s_fresh', 'L'), J('s_fresh', 'R')),
    ('App', 'positive'): AND(J('positive', 'L'), J('positive', 'R')),
    ('App', 'negative'): AND(J('negative', 'L'), J('negative', 'R')),
    ('Exists', 'e_fresh'): OR(EQV, J('e_fresh', 'S')),                      # the binder hides its own variable
    ('Exists', 's_fresh'): J('s_fresh', 'S'),
    ('Exists', 'positive'): J('positive', 'S'),
    ('Exists', 'negative'): J('negative', 'S'),
    ('Mu', 'e_fresh'): J('e_fresh', 'S'),
    ('Mu', 's_fresh'): OR(EQV, J('s_fresh', 'S')),
    ('Mu', 'positive'): OR(EQV, J('positive', 'S')),
    ('Mu', 'negative'): OR(EQV, J('negative', 'S')),
    # FV(p[q/v]) = (FV(p) \ {v}) u (FV(q) if v in FV(p))
    ('ESubst', 'e_fresh'): AND(OR(EQV, J('e_fresh', 'P')), OR(J('e_fresh', 'P', 'v'), J('e_fresh', 'Q'))),
    ('ESubst', 's_fresh'): AND(J('s_fresh', 'P'), OR(J('e_fresh', 'P', 'v'), J('s_fresh', 'Q'))),
    # the polarity of the position of an element variable is not tracked: the plug must not mention X
    ('ESubst', 'positive'): AND(J('positive', 'P'), OR(J('e_fresh', 'P', 'v'), J('s_fresh', 'Q'))),
    ('ESubst', 'negative'): AND(J('negative', 'P'), OR(J('e_fresh', 'P', 'v'), J('s_fresh', 'Q'))),
    ('SSubst', 'e_fresh'): AND(J('e_fresh', 'P'), OR(J('s_fresh', 'P', 'v'), J('e_fresh', 'Q'))),
    ('SSubst', 's_fresh'): AND(OR(EQV, J('s_fresh', 'P')), OR(J('s_fresh', 'P', 'v'), J('s_fresh', 'Q'))),
    # an occurrence of X inside a copy of q at an occurrence of V has polarity pol(V in p) * pol(X in q)
    ('SSubst', 'positive'): AND(OR(EQV, J('positive', 'P')), _kplus()),
    ('SSubst', 'negative'): AND(OR(EQV, J('negative', 'P')), _kminus()),
}


def closure(val: dict) -> dict:
    """Semantic consequences between atoms: not free => only positive and only negative occurrences."""
    for a in list(val):
        if isinstance(a, tuple) and a and a[0] == 'J' and a[1] == 's_fresh' and val[a] is True:
            for j in ('positive', 'negative'):
                b = ('J', j, a[2], a[3])
                if b in val:
                    val[b] = True
    return val


def consistent(val: dict) -> bool:
    """x = v  =>  J(.., c, x) and J(.., c, v) are the same fact."""
    if val.get(('eq', 'v', 'x')) is True:
        for a in val:
            if isinstance(a, tuple) and a and a[0] == 'J' and a[3] == 'x':
                b = ('J', a[1], a[2], 'v')
                if b in val and val[b] != val[a]:
                    return False
    return True


def exact(atom) -> bool:
    """atoms that are exact facts (not approximations): equalities, list membership of a MetaVar."""
    return atom[0] in ('eq', 'in')


# ---- 2.2 the per-constructor pseudocode of docs/proof-language.md ("Terms"), transcribed ----------------------
def _pp():
    return OR(J('s_fresh', 'Q'), AND(J('positive', 'P', 'v'), J('positive', 'Q')),
              AND(J('negative', 'P', 'v'), J('negative', 'Q')))


def _pn():
    return OR(J('s_fresh', 'Q'), AND(J('positive', 'P', 'v'), J('negative', 'Q')),
              AND(J('negative', 'P', 'v'), J('positive', 'Q')))


def ITE(c, a, b):
    return OR(AND(c, a), AND(('not', c), b))


DOC = dict(SOUND)   # start from the entries on which the document and the sound table coincide literally
DOC.update({
    ('MetaVar', 'positive'): A('in', 'x', 'positive'),
    ('MetaVar', 'negative'): A('in', 'x', 'negative'),
    ('ESubst', 'e_fresh'): ITE(EQV, J('e_fresh', 'Q'), AND(J('e_fresh', 'P'), J('e_fresh', 'Q'))),
    ('ESubst', 's_fresh'): AND(J('s_fresh', 'P'), J('s_fresh', 'Q')),
    ('ESubst', 'positive'): AND(J('positive', 'P'), J('s_fresh', 'Q')),
    ('ESubst', 'negative'): AND(J('negative', 'P'), J('s_fresh', 'Q')),
    ('SSubst', 'e_fresh'): AND(J('e_fresh', 'P'), J('e_fresh', 'Q')),
    ('SSubst', 's_fresh'): ITE(EQV, J('s_fresh', 'Q'), AND(J('s_fresh', 'P'), J('s_fresh', 'Q'))),
    ('SSubst', 'positive'): ITE(EQV, _pp(), AND(J('positive', 'P'), _pp())),
    ('SSubst', 'negative'): ITE(EQV, _pn(), AND(J('negative', 'P'), _pn())),
})

HEADS = frozenset({'MetaVar', 'ESubst', 'SSubst'})
# local well-formedness (sub-terms on the stack are well-formed by construction)
DOC_WF = {
    'MetaVar': ('not', A('any_in', 'app_ctx_holes', 'e_fresh')),     # app_ctx_holes.disjoint(e_fresh)
    'Mu': J('positive', 'S', 'v'),                                    # subpattern.positive(var)
    'ESubst': AND(('not', A('redundant',)), ('vin', ('variant', 'P'), HEADS)),
    'SSubst': AND(('not', A('redundant',)), ('vin', ('variant', 'P'), HEADS)),
}
DOC_REDUNDANT = {
    'ESubst': OR(A('eqpat', 'evar(v)', 'Q'), J('e_fresh', 'P', 'v')),   # var == plug  or  pattern.e_fresh(var)
    'SSubst': OR(A('eqpat', 'svar(v)', 'Q'), J('s_fresh', 'P', 'v')),
}


# ---- Python notation node `Instantiate(body, inst)`: the pattern it denotes is body[inst] ---------------------
# accepted form 1: delegate to the one-level expansion (sound by induction on expansion depth);
# accepted form 2: anything that implies  body fresh  and  every instantiating pattern fresh
#                  (x may occur in the expansion only through the body or through a plug).
INSTANTIATE_DELEGATION = J('e_fresh', 'expansion')
INSTANTIATE_SOUND = OR(J('e_fresh', 'expansion'), AND(J('e_fresh', 'body'), A('all', 'e_fresh', 'inst', 'x')))


def closure_py(val: dict) -> dict:
    val = closure(val)
    a_all, a_any = ('all', 'e_fresh', 'inst', 'x'), ('any', 'e_fresh', 'inst', 'x')
    if val.get(a_all) is True and a_any in val:
        val[a_any] = True
    return val


def consistent_py(val: dict) -> bool:
    if not consistent(val):
        return False
    a_all, a_any = ('all', 'e_fresh', 'inst', 'x'), ('any', 'e_fresh', 'inst', 'x')
    # "all" over a possibly empty map does not imply "any"; "any" false and "all" true is the empty map: consistent
    return True
