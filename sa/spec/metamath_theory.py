"""The fixed prelude of the Metamath matching-logic theory, read from the repository's own benchmark databases
(generation/mm-benchmarks/*.mm): for the labels the translator treats specially, the mandatory hypotheses Metamath pops when the
label is applied (floating hypotheses of the variables in database order, then essential hypotheses in block order) and the statement.

Read by a small tokenizer (no code of the repository is run).  Every database that defines a label must define it identically."""
from __future__ import annotations

import glob
import os
import re

from ..core.report import REPO, AnalysisError

SPECIAL = ('app-is-pattern', 'imp-is-pattern', 'proof-rule-prop-1', 'proof-rule-prop-2', 'proof-rule-mp')


def _statements(text: str):
    """yield (label, keyword, tokens, block_essentials) for $f/$e/$a; tracks ${ $} scoping of essentials"""
    text = re.sub(r'\$\(.*?\$\)', ' ', text, flags=re.S)
    toks = text.split()
    i, stack = 0, [[]]
    while i < len(toks):
        t = toks[i]
        if t == '${':
            stack.append([])
            i += 1
        elif t == '$}':
            stack.pop()
            i += 1
        elif t in ('$c', '$v', '$d'):
            j = toks.index('$.', i)
            yield (None, t, toks[i + 1:j], None)
            i = j + 1
        elif i + 1 < len(toks) and toks[i + 1] in ('$f', '$e', '$a', '$p'):
            label, kw = t, toks[i + 1]
            j = i + 2
            body = []
            while toks[j] not in ('$.', '$='):
                body.append(toks[j])
                j += 1
            if toks[j] == '$=':
                j = toks.index('$.', j)
            if kw == '$e':
                stack[-1].append((label, body))
            yield (label, kw, body, [e for fr in stack for e in fr])
            i = j + 1
        else:
            i += 1


def load():
    """label -> {'floats': [var..] (database order), 'essentials': [tokens..], 'statement': tokens, 'files': n}"""
    out = {}
    files = sorted(glob.glob(os.path.join(REPO, 'generation', 'mm-benchmarks', '*.mm')))
    if not files:
        raise AnalysisError('anchor vanished: no generation/mm-benchmarks/*.mm to read the Metamath prelude from')
    for fp in files:
        try:
            with open(fp, encoding='utf-8') as f:
                text = f.read()
        except OSError:
            continue
        if not text.strip():
            continue
        variables, floats = set(), []          # floats: (var, label) in database order
        for label, kw, body, ess in _statements(text):
            if kw == '$v':
                variables.update(body)
            elif kw == '$f' and len(body) == 2:
                floats.append((body[1], label))
            elif kw == '$a' and label in SPECIAL:
                used = {t for t in body if t in variables}
                for _l, eb in ess:
                    used |= {t for t in eb if t in variables}
                order = [v for v, _lab in floats if v in used]
                ren = {v: f'v{i}' for i, v in enumerate(order)}          # databases name their variables differently
                rec = {'floats': [ren[v] for v in order], 'essentials': [[ren.get(t, t) for t in eb] for _l, eb in ess],
                       'statement': [ren.get(t, t) for t in body]}
                if label in out and {k: out[label][k] for k in rec} != rec:
                    raise AnalysisError(f'the benchmark databases disagree on the prelude statement {label}')
                rec['files'] = out.get(label, {}).get('files', 0) + 1
                out[label] = rec
    missing = [s for s in SPECIAL if s not in out]
    if missing:
        raise AnalysisError(f'anchor vanished: prelude labels {missing} are defined in no benchmark database')
    return out


def parse_term(tokens: list[str]):
    """`( \\imp a b )` -> ('imp', a, b); a bare token -> ('var', tok)"""
    pos = 0

    def go():
        nonlocal pos
        t = tokens[pos]
        if t == '(':
            head = tokens[pos + 1]
            pos += 2
            args = []
            while tokens[pos] != ')':
                args.append(go())
            pos += 1
            return (head.lstrip('\\'), *args)
        pos += 1
        return ('var', t)

    t = go()
    return t
