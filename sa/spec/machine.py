"""Table 2.3: the documented stack machine (docs/proof-language.md, "Instructions and semantics"),
one row per opcode, in the canonical vocabulary of core/machine.py.

A row is a list of accepting cases; a case is
  reads   ordered operand / stack reads (all of them checked: missing operand, empty stack, wrong Term kind => reject)
  conds   the side conditions that must hold (everything else rejects)
  effects ordered pushes
Opcodes listed in REJECT are documented but must be rejected by this implementation.
Where the document is silent on operand order the row follows the matching-logic rule the instruction is named after.
"""
from .axioms import AXIOMS, EMPTY


def B(k):
    return ('byte', k)


def L(k):
    return ('list', k)


def POP(k, kind):
    return ('pop', k, kind)


def PAY(k, kind):
    return ('payload', k, kind)


def P(ctor, *f):
    return ('P', ctor) + f


def FLD(v, ctor, f):
    return ('fld', v, ctor, f)


def case(reads=(), conds=(), effects=()):
    return {'reads': list(reads), 'conds': set(conds), 'effects': list(effects)}


def push(target, wrapper, value):
    return ('push', target, wrapper, value)


def J(name, *args):
    return ('call', 'Pattern::' + name, tuple(args))


def _leaf(ctor):
    return [case([B(1)], [], [push('stack', 'Term::Pattern', P(ctor, B(1)))])]


def _bin(ctor):
    # the second operand is on top of the stack
    return [case([POP(1, 'Pattern'), POP(2, 'Pattern')], [],
                 [push('stack', 'Term::Pattern', P(ctor, PAY(2, 'Pattern'), PAY(1, 'Pattern')))])]


def _subst(ctor):
    t = P(ctor, PAY(1, 'Pattern'), B(1), PAY(2, 'Pattern'))      # meta-pattern on top, plug below it
    return [case([B(1), POP(1, 'Pattern'), POP(2, 'Pattern')], [(J('well_formed', t), True)],
                 [push('stack', 'Term::Pattern', t)])]


def _axiom(name):
    return [case([], [], [push('stack', 'Term::Proved', AXIOMS[name])])]


def _instantiate(kind):
    ids = ('collect', B(2))
    plugs = ('collect', PAY(2, 'Pattern'))
    return case([B(1), POP(1, 'any'), ('loop', (('int', 0), B(1)), [B(2), POP(2, 'Pattern')])],
                [(('variant', ('pop', 1)), kind)],
                [push('stack', 'Term::' + kind, ('instantiate', PAY(1, kind), ids, plugs))])


_MU = P('Mu', B(1), PAY(1, 'Pattern'))
_MV = P('MetaVar', B(1), L(1), L(2), L(3), L(4), L(5))
_MP2 = PAY(2, 'Proved')   # the implication: pushed first, so popped second
_G1 = PAY(1, 'Proved')

SPEC = {
    'EVar': _leaf('EVar'), 'SVar': _leaf('SVar'), 'Symbol': _leaf('Symbol'),
    'Implies': _bin('Implies'), 'App': _bin('App'),
    'Exists': [case([B(1), POP(1, 'Pattern')], [], [push('stack', 'Term::Pattern', P('Exists', B(1), PAY(1, 'Pattern')))])],
    'Mu': [case([B(1), POP(1, 'Pattern')], [(J('well_formed', _MU), True)], [push('stack', 'Term::Pattern', _MU)])],
    'MetaVar': [case([B(1), L(1), L(2), L(3), L(4), L(5)], [(J('well_formed', _MV), True)],
                     [push('stack', 'Term::Pattern', _MV)])],
    'CleanMetaVar': [case([B(1)], [], [push('stack', 'Term::Pattern',
                                             P('MetaVar', B(1), EMPTY, EMPTY, EMPTY, EMPTY, EMPTY))])],
    'ESubst': _subst('ESubst'), 'SSubst': _subst('SSubst'),
    'Prop1': _axiom('Prop1'), 'Prop2': _axiom('Prop2'), 'Prop3': _axiom('Prop3'),
    'Quantifier': _axiom('Quantifier'), 'Existence': _axiom('Existence'),
    # premise_left: Implies, premise_right == premise_left.left, conclusion premise_left.right
    'ModusPonens': [case([POP(1, 'Proved'), POP(2, 'Proved')],
                         [(('variant', _MP2), 'Implies'), (('eq', _G1, FLD(_MP2, 'Implies', 'left')), True)],
                         [push('stack', 'Term::Proved', FLD(_MP2, 'Implies', 'right'))])],
    # from  phi1 -> phi2  with x not free in phi2 derive  (exists x . phi1) -> phi2
    'Generalization': [case([POP(1, 'Proved'), B(1)],
                            [(('variant', _G1), 'Implies'), (J('e_fresh', FLD(_G1, 'Implies', 'right'), B(1)), True)],
                            [push('stack', 'Term::Proved',
                                  P('Implies', P('Exists', B(1), FLD(_G1, 'Implies', 'left')), FLD(_G1, 'Implies', 'right')))])],
    # from  |- phi  derive  |- phi[psi/X]  (capture-avoiding set-variable substitution)
    'Substitution': [case([B(1), POP(1, 'Proved'), POP(2, 'Pattern')], [],
                          [push('stack', 'Term::Proved', ('call', 'apply_ssubst', (_G1, B(1), PAY(2, 'Pattern'))))])],
    'Instantiate': [_instantiate('Pattern'), _instantiate('Proved')],
    'Pop': [case([POP(1, 'any')], [], [])],
    'Save': [case([('peek',)], [(('variant', ('top',)), k)], [push('memory', 'Entry::' + k, ('toppayload', k))])
             for k in ('Pattern', 'Proved')],
    'Load': [case([B(1)], [(('variant', ('mem', B(1))), k)], [push('stack', 'Term::' + k, ('mempayload', B(1), k))])
             for k in ('Pattern', 'Proved')],
    'Publish': [
        case([POP(1, 'Pattern')], [(('variant', ('param', 'phase')), 'Gamma')],
             [push('memory', 'Entry::Proved', PAY(1, 'Pattern'))]),                      # the theory's axioms
        case([POP(1, 'Pattern')], [(('variant', ('param', 'phase')), 'Claim')],
             [push('claims', None, PAY(1, 'Pattern'))]),
        case([('claimpop',), POP(1, 'Proved')],
             [(('variant', ('param', 'phase')), 'Proof'), (('eq', ('claim',), PAY(1, 'Proved')), True)], []),
    ],
}

# documented but not implemented: the checker must reject them
REJECT = ['PropagationOr', 'PropagationExists', 'PreFixpoint', 'Singleton', 'Frame', 'KnasterTarski']

# byte values of the wire format (docs + instruction.py + lib.rs agree on these; Mu=7 / Exists=8 follow the decode table)
OPCODES = {
    'EVar': 2, 'SVar': 3, 'Symbol': 4, 'Implies': 5, 'App': 6, 'Mu': 7, 'Exists': 8, 'MetaVar': 9, 'ESubst': 10,
    'SSubst': 11, 'Prop1': 12, 'Prop2': 13, 'Prop3': 14, 'Quantifier': 15, 'PropagationOr': 16,
    'PropagationExists': 17, 'PreFixpoint': 18, 'Existence': 19, 'Singleton': 20, 'ModusPonens': 21,
    'Generalization': 22, 'Frame': 23, 'Substitution': 24, 'KnasterTarski': 25, 'Instantiate': 26, 'Pop': 27,
    'Save': 28, 'Load': 29, 'Publish': 30, 'CleanMetaVar': 137,
}
