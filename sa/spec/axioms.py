"""Table 2.4: the axiom schemas of the matching-logic proof system that the checker implements,
in the canonical term vocabulary (from the proof system, not from the repository)."""

EMPTY = ('empty',)


def MV(i):
    return ('P', 'MetaVar', ('int', i), EMPTY, EMPTY, EMPTY, EMPTY, EMPTY)


def IMP(a, b):
    return ('P', 'Implies', a, b)


BOT = ('P', 'Mu', ('int', 0), ('P', 'SVar', ('int', 0)))          # bottom = mu X0 . X0


def NOT(a):
    return IMP(a, BOT)


PHI0, PHI1, PHI2 = MV(0), MV(1), MV(2)

AXIOMS = {
    'Prop1': IMP(PHI0, IMP(PHI1, PHI0)),
    'Prop2': IMP(IMP(PHI0, IMP(PHI1, PHI2)), IMP(IMP(PHI0, PHI1), IMP(PHI0, PHI2))),
    'Prop3': IMP(NOT(NOT(PHI0)), PHI0),
    # (Exists-Quantifier)  phi0[x1/x0] -> exists x0 . phi0
    'Quantifier': IMP(('P', 'ESubst', PHI0, ('int', 0), ('P', 'EVar', ('int', 1))), ('P', 'Exists', ('int', 0), PHI0)),
    # (Existence)  exists x0 . x0
    'Existence': ('P', 'Exists', ('int', 0), ('P', 'EVar', ('int', 0))),
}
