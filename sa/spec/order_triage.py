"""Triage of iteration-order sites (C18 / C15 / C17): order-insensitive uses that the automatic consumer rules cannot
see.  Keyed by (module, function, rename-stable site key, consumer kind); one reason per line, each confirmed by reading."""

ORDER_SAFE = {
    # key: (module, function, rename-stable site key, consumer kind).  The site key (core/localkeys.py) is the definition of the
    # iterated local and the consuming construct with every name bound in the function masked as `_`: renaming locals keeps the
    # entry, editing the loop body orphans it (the reason below is a statement about that body and has to be re-read).
    ('counting_interpreter', 'CountingInterpreter.finalize',
     'def:{_ for _, _ in self._pattern_usage.items() if _ in _.used_patterns} @ for _ in _: _ = self._pattern_usage[_] _.add(_) '
     'self._pattern_usage[_] = self._pattern_usage[_]._replace(complexity=_.complexity - _.complexity * _.used_patterns[_] + 1) '
     'for _ in _.used_patterns: self._pattern_usage[_].used_patterns[_] -= _.used_patterns[_] * _.used_patterns[_]', 'for'):
        '(`dependencies`) each iteration rewrites only the statistics entry of its own element (existing key, no insertion) from '
        'values that do not depend on the other iterations',
    ('counting_interpreter', 'CountingInterpreter.finalize', 'def:set() @ for _ in _: self._compute_complexity_score(_)', 'for'):
        '(`requires_updating`) each iteration recomputes the score of its own element only',
    ('interpreter', 'Interpreter.interpreting_warnings', 'expr:self._interpreting_warnings @ list(self._interpreting_warnings)', 'call:list'):
        'the warnings are only printed on stdout by check_interpreting; they never reach the gamma/claim/proof files',
    ('k.kore_convertion.language_semantics', 'LanguageSemantics.notations', 'expr:self._inferred_notations @ *self._inferred_notations', 'star'):
        'the tuple only feeds the notation lookup dictionary {definition: notation} and add_notation de-duplication; its order matters '
        'only if two notations share a definition (advisory)',
}

# entry points whose output must be deterministic (C18): (module, qualified name)
ENTRY_POINTS = [
    ('proof', 'ProofExp.serialize'), ('proof', 'ProofExp.main'), ('proof', 'ProofExp.execute_full'),
    ('metamath.translate', 'main'), ('metamath.translate', 'exec_proof'),
    ('metamath.converter.converter', 'MetamathConverter.__init__'),
    ('k.proof_gen', 'main'), ('k.proof_gen', 'generate_proofs'),
    ('k.execution_proof_generation', 'ExecutionProofExp.from_proof_hint'),
]

# uses of ambient state that are harmless: (module, function, what) -> reason
AMBIENT_SAFE = {
    ('metamath.translate', 'main', 'glob'): 'the matched files are only deleted; their order is irrelevant',
    ('metamath.ast', 'Metavariable.__hash__', 'hash'): '__hash__ implementation; hash values never reach an output',
    ('metamath.ast', 'Application.__hash__', 'hash'): '__hash__ implementation (xor of sub-hashes); never reaches an output',
}
