"""Triage of iteration-order sites (C18 / C15 / C17): order-insensitive uses that the automatic consumer rules cannot
see.  Keyed by (module, function, rename-stable site key, consumer kind); one reason per line, each confirmed by reading."""

# Data facts the own-entry effect rule (core/ordertaint.own_entry_effects) relies on: a table entry loaded before a loop over a set
# is not the entry of an element of that set.  Keyed by (module, class, table expression).
DISTINCT_ENTRIES = {
    ('counting_interpreter', 'CountingInterpreter', 'self._pattern_usage'):
        'the statistics of the pattern being memoized are read while its dependents / the recomputed entries are rewritten; a pattern '
        'is a finite tree, so it is never among the patterns that contain it (used_patterns holds proper sub-patterns only), and the '
        'score recomputation reads nothing but the entry it rewrites',
}

ORDER_SAFE = {
    # key: (module, function, rename-stable site key, consumer kind).  The site key (core/localkeys.py) is the definition of the
    # iterated local and the consuming construct with every name bound in the function masked as `_`: renaming locals keeps the
    # entry, editing the loop body orphans it (the reason below is a statement about that body and has to be re-read).
    ('interpreter', 'Interpreter.interpreting_warnings', 'expr:self._interpreting_warnings @ list(self._interpreting_warnings)', 'call:list'):
        'the warnings are only printed on stdout by check_interpreting; they never reach the gamma/claim/proof files',
    ('k.kore_convertion.language_semantics', 'LanguageSemantics.notations', 'expr:self._inferred_notations @ *self._inferred_notations', 'star'):
        'the tuple only feeds the notation lookup dictionary {definition: notation} and add_notation de-duplication; its order matters '
        'only if two notations share a definition (advisory)',
}

# entry points whose output must be deterministic (C18): (module, qualified name)
ENTRY_POINTS = [
    ('proof', 'ProofExp.serialize'), ('proof', 'ProofExp.main'), ('proof', 'ProofExp.execute_full'),
    ('metamath.translate', 'main'), ('metamath.translate', 'exec_proof'),
    ('metamath.converter.converter', 'MetamathConverter.__init__'),
    ('k.proof_gen', 'main'), ('k.proof_gen', 'generate_proofs'),
    ('k.execution_proof_generation', 'ExecutionProofExp.from_proof_hint'),
]

# uses of ambient state that are harmless: (module, function, what) -> reason
AMBIENT_SAFE = {
    ('metamath.translate', 'main', 'glob'): 'the matched files are only deleted; their order is irrelevant',
    ('metamath.ast', 'Metavariable.__hash__', 'hash'): '__hash__ implementation; hash values never reach an output',
    ('metamath.ast', 'Application.__hash__', 'hash'): '__hash__ implementation (xor of sub-hashes); never reaches an output',
}
