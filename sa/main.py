"""CLI: ./check <Cnn> [--tier quick|thorough] [--replay path] | ./check all | ./check selftest <Cnn>"""
from __future__ import annotations

import argparse
import importlib
import json
import os
import sys
import traceback

from .core.report import AnalysisError, Ctx


def load_rule(pid: str):
    try:
        return importlib.import_module(f'sa.rules.{pid.lower()}')
    except ModuleNotFoundError as e:
        if e.name == f'sa.rules.{pid.lower()}':
            raise AnalysisError(f'no check registered for {pid}')
        raise


def run_one(pid: str, tier: str, replay: str | None = None, jobs: int = 16) -> int:
    ctx = None
    try:
        mod = load_rule(pid)
        ctx = Ctx(pid, tier, getattr(mod, 'LEVEL', 'other'))
        try:
            mod.run(ctx)
        except AnalysisError as e:
            # part of the analysis could not be carried out.  Violations already established on this tree are still violations
            # (the construct they name is usually why the rest could not be analysed); without any, the run is undecided (exit 2).
            ctx.floors = []
            ctx.quiet = True
            if any(not o['ok'] for o in ctx.obligations):
                rc = ctx.finish()
                if rc == 1:
                    print(f'ANALYSIS-INCOMPLETE property={pid}: {e}')
                    return 1
            raise
        if tier == 'thorough' and hasattr(mod, 'run_thorough'):
            mod.run_thorough(ctx)
        if replay:
            with open(replay) as f:
                want = json.load(f)
            hits = [o for o in ctx.obligations
                    if o['rule'] == want.get('rule') and o['construct'] == want.get('construct')]
            print(f'replay of {want.get("rule")} / {want.get("construct")} on the current tree:')
            if not hits:
                print('  the instance no longer exists on this tree')
            for o in hits:
                print(json.dumps({k: o[k] for k in ('rule', 'construct', 'ok', 'where', 'detail', 'facts')},
                                 indent=1, default=str))
            ctx.quiet = True
        if tier == 'thorough' and not replay:
            from .selftest import driver
            summ = driver.run_for_property(pid, jobs)
            ctx.analysed['self-validation'] = {k: (v if k != 'failed' else [f['id'] for f in v]) for k, v in summ.items()}
            if summ['failed']:
                for f in summ['failed']:
                    print(f'SELFTEST-FAIL property={pid} variant={f["id"]} expect={f.get("expect")} rc={f.get("rc")} {f.get("lines")}')
                ctx.finish()
                return 2
        return ctx.finish()
    except AnalysisError as e:
        print(f'ANALYSIS-ERROR property={pid}: {e}')
        return 2
    except SystemExit:
        raise
    except BaseException:  # noqa: BLE001 - a traceback must never look like a violation
        tb = traceback.format_exc()
        print(f'ANALYSIS-ERROR property={pid}: internal error\n{tb}')
        return 2


def main(argv: list[str]) -> int:
    ap = argparse.ArgumentParser(prog='check')
    ap.add_argument('property')
    ap.add_argument('extra', nargs='*')
    ap.add_argument('--tier', default=os.environ.get('VERIF_TIER') or 'quick', choices=['quick', 'thorough'])
    ap.add_argument('--replay')
    ap.add_argument('--jobs', type=int, default=16)
    args = ap.parse_args(argv)
    if args.property == 'selftest':
        from .selftest import driver
        return driver.main(args.extra, args.jobs)
    if args.property == 'all':
        worst = 0
        here = os.path.dirname(os.path.abspath(__file__))
        for fn in sorted(os.listdir(os.path.join(here, 'rules'))):
            if fn.startswith('c') and fn.endswith('.py') and fn[1:-3].isdigit():
                worst = max(worst, run_one(fn[:-3].upper(), args.tier))
        return worst
    return run_one(args.property.upper(), args.tier, args.replay, args.jobs)


if __name__ == '__main__':
    sys.exit(main(sys.argv[1:]))
