"""Cross-language rows: what one interpreter method means in the vocabulary of the machine
(byte operands, stack slots, pushed term), assembled from the Serializing -> Stateful -> Basic chain."""
from __future__ import annotations

import ast

from . import pymachine as PM
from .pyeval import show
from .pyfacts import PyRepo
from .report import AnalysisError
from .terms import Notations, CTORS, tshow
from ..spec.axioms import EMPTY

SELF = PM.SELF


class PyRow:
    def __init__(self, meth):
        self.meth = meth
        self.cases: list[dict] = []      # per serializer path: opcode, operands, ...
        self.problems: list[str] = []
        self.where = ''


def _ann(fn: ast.FunctionDef, pname: str) -> str:
    for a in fn.args.args:
        if a.arg == pname and a.annotation is not None:
            return ast.unparse(a.annotation)
    return ''


def _ret_kind(fn: ast.FunctionDef) -> str | None:
    if fn.returns is None:
        return None
    r = ast.unparse(fn.returns)
    if r == 'Proved':
        return 'Proved'
    if r == 'Pattern':
        return 'Pattern'
    if r == 'None':
        return None
    return r


def pattern_fields(py: PyRepo, cls: str) -> list[str]:
    """names of the Pattern-typed fields, in the order Pattern.unwrap returns them (sorted by name)"""
    ci = py.cls(cls, 'pattern')
    out = []
    for n, t in ci.fields:
        if 'Pattern' in t or t in ('MetaVar | ESubst | SSubst',):
            out.append(n)
    return sorted(out)


class Wiring:
    def __init__(self, py: PyRepo, top: str = 'SerializingInterpreter'):
        self.py = py
        self.N = Notations(py)
        self.top = py.cls(top)
        self.chain = py.mro(self.top)
        names = [c.name for c in self.chain]
        for need in ('StatefulInterpreter', 'BasicInterpreter', 'Interpreter'):
            if need not in names:
                raise AnalysisError(f'{top} no longer derives from {need}')
        self.stateful = py.cls('StatefulInterpreter')
        self.basic = py.cls('BasicInterpreter')
        # methods installed on an interpreter class at import time in a way that was not materialised (pyfacts): the rules enumerate
        # the methods of these classes, so nothing can be decided about them
        interp = {c.name for m in py.modules.values() for c in m.classes.values()
                  if c.name.endswith('Interpreter') or any(x.name == 'Interpreter' for x in py.mro(c))}
        for mname, cname, call in getattr(py, 'dynamic_installs', []):
            if cname in interp:
                raise AnalysisError(f'{mname}: `{ast.unparse(call)[:70]}` installs an attribute on interpreter class {cname} at import '
                                    f'time in a way the analysis does not model; its methods cannot be enumerated')

    # ------------------------------------------------------------------
    def levels(self, meth: str):
        """[(ClassInfo, MethodFacts)] from the top class down to BasicInterpreter for the classes that define meth"""
        out = []
        for c in self.chain:
            if meth in c.methods and c.name != 'Interpreter':
                out.append((c, PM.level_facts(self.py, c, meth)))
        return out

    def super_args_ok(self, mf: PM.MethodFacts) -> list[str]:
        """every accepting path calls super().<same method>(<own parameters, same order>) exactly once"""
        probs = []
        for rec in mf.paths:
            sup = [s for s in rec['supers'] if s[0] == mf.meth]
            if len(sup) != 1:
                probs.append(f'{mf.cls}.{mf.meth}: {len(sup)} calls of super().{mf.meth} on an accepting path')
                continue
            args = sup[0][1]
            want = tuple(('param', p) for p in mf.params)
            kw = sup[0][2]
            node = getattr(mf, 'node', None)
            if node is not None and not mf.params and node.args.vararg is not None and node.args.kwarg is not None \
                    and args in ((('star', ('param', node.args.vararg.arg)),), (('star', ('param', '*' + node.args.vararg.arg)),)) \
                    and tuple(kw) in (((None, ('param', node.args.kwarg.arg)),), ((None, ('param', '**' + node.args.kwarg.arg)),)):
                continue                                # def m(self, *args, **kwargs): super().m(*args, **kwargs) - everything is forwarded
            if kw:
                got = list(args) + [None] * (len(want) - len(args))
                for k, v in kw:
                    if k in mf.params:
                        got[mf.params.index(k)] = v
                args = tuple(got)
            if args != want:
                probs.append(f'{mf.cls}.{mf.meth}: super().{mf.meth} is called with ({", ".join(show(a) for a in args)}) '
                             f'instead of its own parameters ({", ".join(mf.params)})')
        return probs

    # ------------------------------------------------------------------
    def serializer_cases(self, meth: str):
        """-> [ {conds, opcode, operands:[descr], node} ]  operand descr:
             ('scalar', expr) | ('len', expr) | ('each', expr, reversed:bool) | ('names', expr)  (attribute .name of each element)"""
        ci = self.top
        if meth not in ci.methods:
            return None
        mf = PM.level_facts(self.py, ci, meth)
        cases = []
        for rec in mf.paths:
            chunks = []
            for w in rec['writes']:
                el = PM.bytes_elts(w)
                if el is None:
                    raise AnalysisError(f'{ci.name}.{meth}: out.write argument is not bytes([...]): {show(w)}')
                chunks.append(el)
            loops = []
            for head, body_paths in rec['loops']:
                # `for x in [a, b, c]: self.out.write(bytes([len(x), *[v.name for v in x]]))`
                elems = literal_elems(head[2]) if head[0] == 'for' else None
                if elems is None:
                    raise AnalysisError(f'{ci.name}.{meth}: loop over a non-literal collection in the serializer')
                bp = [b for b in body_paths if b.end[0] != 'raise']
                if len(bp) != 1:
                    raise AnalysisError(f'{ci.name}.{meth}: branching loop body in the serializer')
                writes = [e.value for e in bp[0].events if e.kind == 'ecall' and e.value[1] == ('attr', ('attr', SELF, 'out'), 'write')]
                for x in elems:
                    for w in writes:
                        el = PM.bytes_elts(PM.canon_value(w[2][0]))
                        if el is None:
                            raise AnalysisError(f'{ci.name}.{meth}: out.write argument is not bytes([...])')
                        loops.append([_subst(e, ('elem', head[2]), x) for e in el])
            allb = chunks + loops
            if not allb or not allb[0]:
                cases.append({'conds': rec['conds'], 'opcode': None, 'operands': [], 'rec': rec})
                continue
            op = PM.opcode_of(allb[0][0])
            if op is None:
                cases.append({'conds': rec['conds'], 'opcode': None, 'operands': [], 'rec': rec,
                              'why': f'the first byte written is `{show(allb[0][0])}`, not a member of Instruction'})
                continue
            operands = []
            flat = allb[0][1:] + [e for ch in allb[1:] for e in ch]
            for e in flat:
                if PM.opcode_of(e) is not None:
                    raise AnalysisError(f'{ci.name}.{meth}: a second opcode is written in one call')
                operands.append(_operand(e))
            # len(x) is a length prefix only when the elements of x follow; on its own it is a number like any other
            for i, o in enumerate(operands):
                if o[0] == 'len' and not (i + 1 < len(operands) and operands[i + 1][0] in ('each', 'names')
                                          and strip_view(operands[i + 1][1]) == strip_view(o[1])):
                    operands[i] = ('scalar', ('call', ('name', 'len'), (o[1],), ()))
            # a number that this path has just stored as the table entry of a key it found missing (`if k not in t: t[k] = v; write(v)`)
            # is that entry (`write(t[k])`).  Only under the membership test: after `if not t.get(k)` the entry may exist (value 0).
            for i, o in enumerate(operands):
                if o[0] == 'scalar' and o[1][0] != 'const':
                    for ev_ in rec.get('events', []):
                        if ev_.kind == 'setitem' and ev_.value[2] == o[1] \
                                and (('cmp', 'in', ev_.value[1], ev_.value[0]), False) in [(c_, b_) for c_, b_ in rec['conds']]:
                            operands[i] = ('scalar', ('sub', ev_.value[0], ev_.value[1]))
            cases.append({'conds': rec['conds'], 'opcode': op, 'operands': operands, 'rec': rec, 'nwrites': len(allb)})
        return mf, cases


def strip_view(v):
    """d.keys() / d.values() / list(d) / tuple(d) name the same collection as d for the purpose of pairing a length with its elements"""
    while True:
        if v[0] == 'call' and v[1][0] == 'attr' and v[1][2] in ('keys', 'values', 'items') and not v[2]:
            v = v[1][1]
        elif v[0] == 'call' and v[1] in (('name', 'list'), ('name', 'tuple')) and len(v[2]) == 1:
            v = v[2][0]
        else:
            return v


def _subst(v, old, new):
    if v == old:
        return new
    if isinstance(v, tuple):
        out = tuple(_subst(x, old, new) if isinstance(x, tuple) else x for x in v)
        # the i-th component of a tuple display is that component
        if len(out) == 3 and out[0] == 'item' and isinstance(out[1], tuple) and out[1] and out[1][0] in ('tuple', 'list') \
                and isinstance(out[2], int) and -len(out[1][1]) <= out[2] < len(out[1][1]):
            return out[1][1][out[2]]
        return out
    return v


def literal_elems(v, depth=0):
    """the elements of a sequence value that is spelled out: a display, a comprehension over one (one generator, a plain name as
    target, no filter), `zip` of such sequences of equal length (pairs as tuple displays), `list` / `tuple` / `reversed` of one.
    -> list of values or None"""
    if depth > 6 or not isinstance(v, tuple) or not v:
        return None
    if v[0] in ('list', 'tuple'):
        return None if any(x[0] == 'star' for x in v[1]) else list(v[1])
    if v[0] == 'comp' and v[1] in ('listcomp', 'gen') and len(v[3]) == 1 and not v[3][0][2] and ',' not in v[3][0][0] and '(' not in v[3][0][0]:
        tgt, it, _ifs = v[3][0]
        inner = literal_elems(it, depth + 1)
        if inner is None:
            return None
        return [_subst(v[2], ('bound', tgt), x) for x in inner]
    if v[0] == 'sub' and isinstance(v[2], tuple) and v[2] and v[2][0] == 'slice':
        inner = literal_elems(v[1], depth + 1)
        b = [None if x is None else (x[1] if x[0] == 'const' and isinstance(x[1], int) else ...) for x in v[2][1:4]]
        return None if inner is None or ... in b else inner[slice(*b)]
    if v[0] == 'call' and v[1][0] == 'name' and len(v) >= 3:
        name, args = v[1][1], v[2]
        if name in ('list', 'tuple') and len(args) == 1:
            return literal_elems(args[0], depth + 1)
        if name == 'reversed' and len(args) == 1:
            inner = literal_elems(args[0], depth + 1)
            return None if inner is None else inner[::-1]
        if name == 'zip' and args:
            seqs = [literal_elems(a, depth + 1) for a in args]
            if any(q is None for q in seqs):
                return None
            if len({len(q) for q in seqs}) != 1 and any(k == 'strict' and x == ('const', True) for k, x in (v[3] if len(v) > 3 else ())):
                return None                           # raises at run time
            return [('tuple', tuple(t)) for t in zip(*seqs)]
    return None


def _operand(e):
    if e[0] == 'call' and e[1] == ('name', 'len') and len(e[2]) == 1:
        return ('len', e[2][0])
    if e[0] == 'star':
        inner = e[1]
        rev = False
        if inner[0] == 'call' and inner[1] == ('name', 'reversed') and len(inner[2]) == 1:
            rev, inner = True, inner[2][0]
        if inner[0] == 'comp' and len(inner[3]) == 1 and not inner[3][0][2]:
            tgt, it, _ifs = inner[3][0]
            if inner[2] == ('attr', ('bound', tgt), 'name'):
                return ('names', it, rev)
            if inner[2] == ('bound', tgt):
                return ('each', it, rev)
        return ('each', inner, rev)
    return ('scalar', e)


def show_operand(o) -> str:
    if o[0] == 'scalar':
        return show(o[1])
    if o[0] == 'len':
        return f'len({show(o[1])})'
    return f'{"reversed " if o[2] else ""}{"names of " if o[0] == "names" else "each of "}{show(o[1])}'


def canon_components(v, conds, py: PyRepo):
    """`C.extract(X)[i]` / `C.unwrap(X)[i]` and `X.<field>` under an `isinstance(X, C)` / `case C(..)` decision are the same
    destructuring: both become ('comp', X, C, field)."""
    known = {}
    for c, b in conds:
        if b is True and c[0] == 'isinstance' and c[2][0] == 'name':
            known[c[1]] = c[2][1]
        if b is True and c[0] == 'call' and c[1] == ('name', 'isinstance') and len(c[2]) == 2 and c[2][1][0] == 'name':
            known[c[2][0]] = c[2][1][1]

    def go(x):
        if not isinstance(x, tuple) or not x:
            return x
        if x[0] == 'sub' and x[2][0] == 'const' and isinstance(x[2][1], int) and x[2][1] >= 0 and x[1][0] == 'call' and x[1][1][0] == 'attr' \
                and x[1][1][2] in ('extract', 'unwrap'):
            x = ('item', x[1], x[2][1])              # `parts[0]` and `a, b = parts` name the same component
        if x[0] == 'item' and isinstance(x[2], int) and x[1][0] == 'call' and x[1][1][0] == 'attr' and x[1][1][2] in ('extract', 'unwrap') \
                and x[1][1][1][0] == 'name' and len(x[1][2]) == 1:
            ctor = x[1][1][1][1]
            try:
                flds = pattern_fields(py, ctor)
            except Exception:  # noqa: BLE001
                flds = []
            if 0 <= x[2] < len(flds):
                return ('component', go(x[1][2][0]), ctor, flds[x[2]])
        if x[0] == 'attr' and x[1] in known:
            ctor = known[x[1]]
            ci = py.find_class(ctor, 'pattern')
            if ci is not None and x[2] in [n for n, _t in ci.fields]:
                return ('component', go(x[1]), ctor, x[2])
        return tuple(go(y) if isinstance(y, tuple) else y for y in x)

    return go(v)


# ----------------------------------------------------------------------------
# which sequence-typed parameters does a case condition force to be empty?

def forced_empty(conds, params) -> set:
    """conds: [(pyeval value, bool)] selecting one encoding case; params: names of sequence-typed parameters.
    Every parameter is abstracted to EMPTY / NON-EMPTY; the conditions are evaluated on all assignments (len, sum, map, any, all,
    comprehensions over a literal collection of the parameters, ==, !=, >, not, and, or, truthiness).  A parameter is forced empty if
    it is empty in EVERY assignment that satisfies all conditions.  Anything the evaluator does not understand makes the condition
    'unknown' (no forcing): the answer errs towards reporting, never towards accepting."""
    import itertools
    rel = [p for p in params if any(_mentions_param(c, p) for c, _b in conds)]
    if not rel or len(rel) > 8:
        return set()
    sat = []
    for bits in itertools.product([False, True], repeat=len(rel)):
        asg = dict(zip(rel, bits))            # True = non-empty
        ok = True
        for c, want in conds:
            if not any(_mentions_param(c, p) for p in rel):
                continue
            t = _truth(_abs_eval(c, asg, {}))
            if t is None:
                return set()
            if t != want:
                ok = False
                break
        if ok:
            sat.append(asg)
    if not sat:
        return set()
    return {p for p in rel if all(not a[p] for a in sat)}


def _mentions_param(v, p) -> bool:
    if v == ('param', p):
        return True
    return isinstance(v, tuple) and any(_mentions_param(x, p) for x in v if isinstance(x, tuple))


class _Seq:
    def __init__(self, nonempty: bool):
        self.nonempty = nonempty


def _truth(a):
    if a is None:
        return None
    if isinstance(a, _Seq):
        return a.nonempty
    if isinstance(a, bool):
        return a
    if isinstance(a, int):
        return a != 0
    if isinstance(a, list):
        return len(a) > 0
    return None


def _abs_eval(v, asg, bound):
    k = v[0] if isinstance(v, tuple) and v else None
    if k == 'param':
        return _Seq(asg[v[1]]) if v[1] in asg else None
    if k == 'bound':
        return bound.get(v[1])
    if k == 'const':
        return v[1] if isinstance(v[1], (int, bool)) else None
    if k in ('tuple', 'list'):
        out = [_abs_eval(x, asg, bound) for x in v[1]]
        return None if any(x is None for x in out) else out
    if k == 'not':
        t = _truth(_abs_eval(v[1], asg, bound))
        return None if t is None else (not t)
    if k == 'boolop':
        ts = [_truth(_abs_eval(x, asg, bound)) for x in v[2]]
        if any(t is None for t in ts):
            return None
        return all(ts) if v[1] == 'and' else any(ts)
    if k == 'cmp':
        a, b = _abs_eval(v[2], asg, bound), _abs_eval(v[3], asg, bound)
        if isinstance(a, bool) or isinstance(b, bool) or not isinstance(a, int) or not isinstance(b, int):
            # comparisons with the empty tuple / list literal
            for x, y in ((a, b), (b, a)):
                if isinstance(x, _Seq) and isinstance(y, list) and not y and v[1] in ('==', '!='):
                    return (not x.nonempty) if v[1] == '==' else x.nonempty
            return None
        # abstract ints: 0 or "positive" (1): only comparisons with 0 are meaningful
        if 0 not in (a, b) and v[1] not in ('==', '!='):
            return None
        return {'==': a == b, '!=': a != b, '>': a > b, '>=': a >= b, '<': a < b, '<=': a <= b}.get(v[1])
    if k == 'comp' and len(v[3]) == 1:
        tgt, it, ifs = v[3][0]
        src = _abs_eval(it, asg, bound)
        if not isinstance(src, list) or ifs:
            return None
        out = []
        for x in src:
            out.append(_abs_eval(v[2], asg, dict(bound, **{tgt.strip('()'): x})))
        return None if any(x is None for x in out) else out
    if k == 'call' and v[1][0] == 'name' and not v[3]:
        f, args = v[1][1], v[2]
        if f == 'len' and len(args) == 1:
            a = _abs_eval(args[0], asg, bound)
            if isinstance(a, _Seq):
                return 1 if a.nonempty else 0
            if isinstance(a, list):
                return len(a)
            return None
        if f == 'map' and len(args) == 2 and args[0] == ('name', 'len'):
            src = _abs_eval(args[1], asg, bound)
            if not isinstance(src, list):
                return None
            out = [(1 if x.nonempty else 0) if isinstance(x, _Seq) else (len(x) if isinstance(x, list) else None) for x in src]
            return None if any(x is None for x in out) else out
        if f == 'sum' and len(args) == 1:
            src = _abs_eval(args[0], asg, bound)
            if not isinstance(src, list) or any(isinstance(x, bool) or not isinstance(x, int) for x in src):
                return None
            return 1 if any(x > 0 for x in src) else 0
        if f in ('any', 'all') and len(args) == 1:
            src = _abs_eval(args[0], asg, bound)
            if not isinstance(src, list):
                return None
            ts = [_truth(x) for x in src]
            if any(t is None for t in ts):
                return None
            return any(ts) if f == 'any' else all(ts)
        if f in ('list', 'tuple') and len(args) == 1:
            return _abs_eval(args[0], asg, bound)
        if f == 'bool' and len(args) == 1:
            return _truth(_abs_eval(args[0], asg, bound))
    return None
