"""Engine C: decision functions and their comparison by exhaustive valuation.

A decision function is a list of guarded outcomes `(conds, result)`:
  conds  : tuple of (atom, outcome)   outcome is True/False, a variant name, or ('not', (names...))
  result : ('const', bool) | ('lit', atom, polarity) | ('term', t) | ('raise', why)
The guards of the outcomes partition the valuations (they are the acyclic paths of
one match arm / method body).  Formulas of the specification tables are
  ('atom', a) | ('not', f) | ('and', f...) | ('or', f...) | ('const', b) | ('vin', a, frozenset(names))
Everything is decided by enumerating the valuations of the atoms (<= MAX_ATOMS).
"""
from __future__ import annotations

import itertools

from .report import AnalysisError

MAX_ATOMS = 12


class DF:
    def __init__(self, outcomes, name=''):
        self.outcomes = list(outcomes)
        self.name = name

    def domains(self) -> dict:
        dom: dict = {}

        def add(atom, outcome):
            if isinstance(outcome, bool):
                dom.setdefault(atom, [False, True])
            else:
                d = dom.setdefault(atom, [])
                names = outcome[1] if isinstance(outcome, tuple) and outcome[0] == 'not' else (outcome,)
                for n in names:
                    if n not in d:
                        d.append(n)
                if '<other>' not in d:
                    d.append('<other>')

        for conds, res in self.outcomes:
            for a, o in conds:
                add(a, o)
            if res[0] == 'lit':
                dom.setdefault(res[1], [False, True])
            if res[0] == 'formula':
                for a in f_atoms(res[1]):
                    dom.setdefault(a, [False, True])
        return dom

    def evaluate(self, val: dict):
        """-> result tuple of the unique outcome whose guard holds under val."""
        hit = None
        for conds, res in self.outcomes:
            if all(cond_holds(val, a, o) for a, o in conds):
                if hit is not None and hit != res:
                    # overlapping guards with different results: the extraction is wrong
                    raise AnalysisError(f'{self.name}: decision function is not a partition')
                hit = res
        if hit is None:
            raise AnalysisError(f'{self.name}: decision function does not cover valuation {val}')
        return hit

    def truth(self, val: dict):
        """boolean value (True/False) or None if the outcome raises."""
        r = self.evaluate(val)
        if r[0] == 'const':
            return bool(r[1])
        if r[0] == 'lit':
            return val[r[1]] == r[2]
        if r[0] == 'formula':
            return f_eval(r[1], val)
        if r[0] == 'raise':
            return None
        raise AnalysisError(f'{self.name}: non-boolean outcome {r}')


def cond_holds(val, atom, outcome) -> bool:
    v = val[atom]
    if isinstance(outcome, bool):
        return v == outcome
    if isinstance(outcome, tuple) and outcome and outcome[0] == 'not':
        return v not in outcome[1]
    return v == outcome


def f_atoms(f, acc=None) -> list:
    acc = [] if acc is None else acc
    if f[0] in ('atom', 'vin'):
        if f[1] not in acc:
            acc.append(f[1])
    elif f[0] in ('and', 'or', 'not'):
        for x in f[1:]:
            f_atoms(x, acc)
    return acc


def f_eval(f, val) -> bool:
    k = f[0]
    if k == 'atom':
        return bool(val[f[1]])
    if k == 'vin':
        return val[f[1]] in f[2]
    if k == 'const':
        return bool(f[1])
    if k == 'not':
        return not f_eval(f[1], val)
    if k == 'and':
        return all(f_eval(x, val) for x in f[1:])
    if k == 'or':
        return any(f_eval(x, val) for x in f[1:])
    raise AnalysisError(f'bad formula {f}')


def f_show(f) -> str:
    k = f[0]
    if k == 'atom':
        return a_show(f[1])
    if k == 'vin':
        return f'{a_show(f[1])} in {{{",".join(sorted(f[2]))}}}'
    if k == 'const':
        return 'T' if f[1] else 'F'
    if k == 'not':
        return '!' + f_show(f[1])
    return '(' + (' & ' if k == 'and' else ' | ').join(f_show(x) for x in f[1:]) + ')'


def a_show(a) -> str:
    if isinstance(a, tuple):
        return a[0] + '(' + ','.join(a_show(x) for x in a[1:]) + ')'
    return str(a)


def valuations(domains: dict, consistent=None):
    keys = list(domains)
    if len(keys) > MAX_ATOMS:
        raise AnalysisError(f'{len(keys)} atoms exceed the bound of {MAX_ATOMS}')
    for combo in itertools.product(*[domains[k] for k in keys]):
        val = dict(zip(keys, combo))
        if consistent is None or consistent(val):
            yield val


def merge_domains(df: DF, *formulas) -> dict:
    dom = df.domains()
    for f in formulas:
        for a in f_atoms(f):
            if a not in dom:
                dom[a] = [False, True]
        _vin_domains(f, dom)
    return dom


def _vin_domains(f, dom):
    if f[0] == 'vin':
        d = dom.get(f[1])
        if d is None or d == [False, True]:
            d = dom[f[1]] = []
        for n in sorted(f[2]):
            if n not in d:
                d.append(n)
        if '<other>' not in d:
            d.append('<other>')
    elif f[0] in ('and', 'or', 'not'):
        for x in f[1:]:
            _vin_domains(x, dom)


def equivalent(df: DF, formula, consistent=None, raise_ok=False):
    """None if df == formula on every consistent valuation, else a counterexample valuation."""
    dom = merge_domains(df, formula)
    n = 0
    for val in valuations(dom, consistent):
        n += 1
        t = df.truth(val)
        if t is None:
            if raise_ok:
                continue
            return val, 'raises', n
        if t != f_eval(formula, val):
            return val, t, n
    return None, None, n


def implies(df: DF, formula, closure=None, consistent=None):
    """Soundness obligation: whenever df answers True, `formula` holds on the least
    semantic valuation above the judged one (closure adds the consequences between atoms).
    `formula` must be monotone in its non-exact atoms; the caller checks that separately."""
    dom = merge_domains(df, formula)
    n = 0
    for val in valuations(dom, consistent):
        n += 1
        if df.truth(val) is True:
            sem = closure(dict(val)) if closure else val
            if not f_eval(formula, sem):
                return val, n
    return None, n


def monotone(formula, exact=lambda a: False) -> bool:
    """formula is monotone (non-decreasing) in every non-exact boolean atom."""
    ats = f_atoms(formula)
    dom = {a: [False, True] for a in ats}
    _vin_domains(formula, dom)
    if len(ats) > MAX_ATOMS:
        raise AnalysisError('too many atoms')
    for val in valuations(dom):
        if f_eval(formula, val):
            for a in ats:
                if not exact(a) and dom[a] == [False, True] and val[a] is False:
                    v2 = dict(val)
                    v2[a] = True
                    if not f_eval(formula, v2):
                        return False
    return True
