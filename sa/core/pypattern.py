"""Canonical atoms / terms for the methods of the Pattern classes in pattern.py (Python side)."""
from __future__ import annotations

import ast

from .decide import DF
from .pyeval import PyEval, Decline, show
from .pyfacts import PyRepo
from .report import AnalysisError
from ..spec.judgements import ROLES

SELF = ('param', 'self')
JNAME = {'evar_is_free': 'e_fresh'}


def pattern_classes(py: PyRepo):
    base = py.cls('Pattern', 'pattern')
    out = [c for c in py.subclasses(base)]
    return out


def role(cls: str, fname: str) -> str:
    try:
        return ROLES[cls][fname]
    except KeyError:
        raise AnalysisError(f'{cls} has a field `{fname}` unknown to the role table')


def operand(v, cls: str, q: str | None):
    """self.<field> / self.<field>.name / the query parameter -> role"""
    if q is not None and v == ('param', q):
        return 'x'
    if v == SELF:
        return 'self'
    if v[0] == 'attr' and v[1] == SELF:
        return role(cls, v[2])
    if v[0] == 'attr' and v[2] == 'name' and v[1][0] == 'attr' and v[1][1] == SELF:
        r = role(cls, v[1][2])
        if r == 'v':
            return 'v'          # ESubst.var / SSubst.var are EVar / SVar objects; `.name` is the id
    raise AnalysisError(f'operand outside the analysed subset in {cls}: {show(v)}')


def atom(v, cls: str, q: str | None):
    """boolean-valued expression -> formula over canonical atoms"""
    k = v[0]
    if k == 'const' and isinstance(v[1], bool):
        return ('const', v[1])
    if k == 'not':
        return ('not', atom(v[1], cls, q))
    if k == 'boolop':
        return (v[1],) + tuple(atom(x, cls, q) for x in v[2])
    if k == 'cmp' and v[1] in ('==', '!='):
        a, b = sorted([operand(v[2], cls, q), operand(v[3], cls, q)])
        f = ('atom', ('eq', a, b))
        return f if v[1] == '==' else ('not', f)
    if k == 'cmp' and v[1] in ('in', 'not in'):
        x = v[2]
        if x[0] == 'call' and x[1][0] == 'name' and x[1][1] in ('EVar', 'SVar') and len(x[2]) == 1:
            x = x[2][0]
        f = ('atom', ('in', operand(x, cls, q), operand(v[3], cls, q)))
        return f if v[1] == 'in' else ('not', f)
    if k == 'ifexp' and len(v) == 4:
        c = atom(v[1], cls, q)
        return ('or', ('and', c, atom(v[2], cls, q)), ('and', ('not', c), atom(v[3], cls, q)))
    if k == 'call' and v[1][0] == 'attr' and v[1][1][0] == 'ifexp' and len(v[1][1]) == 4:
        # (a if c else b).m(x)  ==  a.m(x) if c else b.m(x)
        ie = v[1][1]
        return atom(('ifexp', ie[1], ('call', ('attr', ie[2], v[1][2]), v[2], v[3]), ('call', ('attr', ie[3], v[1][2]), v[2], v[3])), cls, q)
    if k == 'call' and v[1][0] == 'attr' and v[1][2] in JNAME and len(v[2]) == 1:
        recv = v[1][1]
        var = operand(v[2][0], cls, q)
        if recv[0] == 'call' and recv[1] == ('attr', SELF, 'simplify') and not recv[2]:
            return ('atom', ('J', JNAME[v[1][2]], 'expansion', var))
        return ('atom', ('J', JNAME[v[1][2]], operand(recv, cls, q), var))
    if k == 'call' and v[1][0] == 'name' and v[1][1] in ('any', 'all') and len(v[2]) == 1 and v[2][0][0] == 'comp':
        comp = v[2][0]
        elt, gens = comp[2], comp[3]
        if len(gens) == 1 and not gens[0][2]:
            tgt, it, _ = gens[0]
            if it == ('call', ('attr', ('attr', SELF, 'inst'), 'values'), (), ()) and elt[0] == 'call' \
                    and elt[1] == ('attr', ('bound', tgt), 'evar_is_free') and len(elt[2]) == 1:
                return ('atom', (v[1][1], 'e_fresh', 'inst', operand(elt[2][0], cls, q)))
    raise AnalysisError(f'condition outside the analysed subset in {cls}: {show(v)}')


def private_helper_resolver(py: PyRepo, cls: str):
    """PyEval resolver for the pattern module: PRIVATE helpers - `self._x(..)` methods of the class hierarchy and module-level
    `_x(..)` functions - are implementation detail and are evaluated in place; the public API (constructors, judgements,
    substitution methods, match_single ...) stays symbolic, because the rules reason about those calls."""
    import ast as _ast
    ci = py.cls(cls, 'pattern')
    mi = py.modules[ci.module]
    # the API of the hierarchy = what its root declares; any other method of a class (a hook of a shared base, a helper with a public
    # name) is implementation detail like the underscore-named ones
    root = py.mro(ci)[-1]
    api = set(root.methods) | {'simplify', 'pretty', 'deconstruct', 'unwrap', 'extract'}

    def resolver(call, env, _ev):
        f = call.func
        if isinstance(f, _ast.Name) and f.id.startswith('_') and not f.id.startswith('__') and f.id in mi.functions and f.id not in env:
            return mi.functions[f.id], None
        if isinstance(f, _ast.Attribute) and isinstance(f.value, _ast.Name) and env.get(f.value.id) == SELF \
                and not f.attr.startswith('__') and (f.attr.startswith('_') or f.attr not in api):
            hit = py.find_method(ci, f.attr)
            if hit is None:
                return None
            decos = [_ast.unparse(d).split('(')[0].split('.')[-1] for d in hit[1].decorator_list]
            if 'property' in decos:
                return None
            if 'staticmethod' in decos:
                return hit[1], None
            if 'classmethod' in decos:
                return hit[1], ('name', ci.name)
            return hit[1], SELF
        return None
    return resolver


def bool_method_df(py: PyRepo, cls: str, meth: str) -> DF:
    fn = py.method(cls, meth, 'pattern')
    params = [a.arg for a in fn.args.args]
    q = params[1] if len(params) > 1 else None
    ev = PyEval(resolver=private_helper_resolver(py, cls))
    try:
        paths = ev.paths(fn)
    except Decline as d:
        raise AnalysisError(f'{cls}.{meth}: outside the analysed subset: {d}')
    outcomes = []
    for p in paths:
        conds = []
        for c, pol in p.conds:
            f = atom(c, cls, q)
            if f[0] == 'not':
                f, pol = f[1], not pol
            if f[0] != 'atom':
                raise AnalysisError(f'{cls}.{meth}: compound condition not decomposed: {f}')
            conds.append((f[1], pol))
        if p.end[0] == 'return':
            res = ('formula', atom(p.end[1], cls, q))
        elif p.end[0] == 'raise':
            res = ('raise', show(p.end[1]))
        else:
            raise AnalysisError(f'{cls}.{meth}: path falls off the end')
        outcomes.append((tuple(conds), res))
    return DF(outcomes, f'{cls}.{meth}')


# ----------------------------------------------------------------------------
# substitution / instantiation methods in the vocabulary of spec/substitution.py

from ..spec import substitution as SS   # noqa: E402
from .terms import CTORS                # noqa: E402

VAR_CTOR = {'ESubst': 'EVar', 'SSubst': 'SVar'}


class PySubstCanon:
    def __init__(self, cls: str, meth: str, params: list[str]):
        self.cls, self.meth = cls, meth
        self.params = params
        if meth in ('apply_esubst', 'apply_ssubst'):
            self.p_var, self.p_plug = ('param', params[0]), ('param', params[1])
            self.p_delta = None
        else:
            self.p_var = self.p_plug = None
            self.p_delta = ('param', params[0])

    def fld(self, v):
        if v[0] == 'attr' and v[1] == SELF:
            return role(self.cls, v[2])
        if v[0] == 'attr' and v[2] == 'name' and v[1][0] == 'attr' and v[1][1] == SELF and role(self.cls, v[1][2]) == 'v':
            return 'v'
        return None

    def term(self, v):
        if v == SELF:
            return SS.SELF
        if self.p_plug is not None and v == self.p_plug:
            return SS.PLUG
        if self.p_var is not None and v == self.p_var:
            return SS.VAR
        r = self.fld(v)
        if r is not None:
            return SS.F(r)
        if v[0] == 'call' and v[1][0] == 'name' and v[1][1] in CTORS:
            ctor = v[1][1]
            fields = CTORS[ctor]
            vals = {}
            for i, a in enumerate(v[2]):
                vals[fields[i]] = a
            for kw, a in v[3]:
                vals[kw] = a
            if set(vals) != set(fields) and ctor != 'MetaVar':
                raise AnalysisError(f'{self.cls}.{self.meth}: {ctor}(...) built with fields {sorted(vals)}')
            out = []
            for f in fields:
                a = vals.get(f)
                if a is None:
                    out.append(('empty',))
                    continue
                if f == 'var' and ctor in VAR_CTOR:
                    # the substituted variable is stored as an EVar / SVar object of the matching sort
                    if a[0] == 'call' and a[1] == ('name', VAR_CTOR[ctor]) and len(a[2]) == 1:
                        out.append(self.term(a[2][0]))
                    elif a == ('attr', SELF, 'var'):
                        out.append(SS.F('v'))
                    else:
                        out.append(('wrong-sort-var', self.term(a[2][0]) if a[0] == 'call' and a[2] else show(a)))
                else:
                    out.append(self.term(a))
            return ('C', ctor) + tuple(out)
        if v[0] == 'call' and v[1][0] == 'attr' and v[1][2] == self.meth and self.meth.startswith('apply_'):
            tgt = v[1][1]
            r = self.fld(tgt)
            if r is not None and v[2] == (self.p_var, self.p_plug):
                return SS.REC(r)
            return (self.meth[6:], self.term(tgt)) + tuple(self.term(a) for a in v[2])
        if v[0] == 'call' and v[1][0] == 'attr' and v[1][2] in ('apply_esubst', 'apply_ssubst'):
            return (v[1][2][6:], self.term(v[1][1])) + tuple(self.term(a) for a in v[2])
        if v[0] == 'call' and v[1][0] == 'attr' and v[1][2] == 'instantiate' and len(v[2]) == 1:
            tgt = v[1][1]
            r = self.fld(tgt)
            if r is not None and v[2][0] == self.p_delta:
                return SS.INST(r)
            return ('instantiate', self.term(tgt), show(v[2][0]))
        if v[0] == 'call' and v[1] == ('attr', SELF, 'simplify') and not v[2]:
            return ('expansion',)
        if v[0] == 'sub' and self.p_delta is not None and v[1] == self.p_delta and v[2] == ('attr', SELF, 'name'):
            return ('lookup',)
        raise AnalysisError(f'{self.cls}.{self.meth}: result outside the analysed subset: {show(v)}')

    def cond(self, c, pol):
        """-> (atom, polarity) or None to ignore"""
        if c[0] == 'cmp' and c[1] == '==':
            roles = []
            for z in (c[2], c[3]):
                if z == self.p_var:
                    roles.append('var')
                else:
                    r = self.fld(z)
                    if r is None:
                        raise AnalysisError(f'{self.cls}.{self.meth}: comparison outside the subset: {show(c)}')
                    roles.append(r)
            roles.sort()
            return ('eq', roles[0], roles[1]), pol
        if c[0] == 'cmp' and c[1] == 'in':
            x, lst = c[2], c[3]
            if x[0] == 'call' and x[1][0] == 'name' and x[1][1] in ('EVar', 'SVar') and x[2] == (self.p_var,):
                r = self.fld(lst)
                if r is not None:
                    return ('in', 'var', r), pol
            if self.p_delta is not None and lst == self.p_delta and x == ('attr', SELF, 'name'):
                return ('has',), pol
        if self.p_delta is not None and c == self.p_delta:
            return ('empty',), not pol
        if c[0] == 'call' and c[1] == ('attr', SELF, 'can_be_replaced_by'):
            return None
        # capture guard: the plug must be fresh for the binder's own variable
        if self.p_plug is not None and c[0] == 'call' and c[1][0] == 'attr' and c[1][1] == self.p_plug \
                and c[1][2] in ('evar_is_free', 'svar_is_free') and len(c[2]) == 1 and self.fld(c[2][0]) == 'v':
            return ('fresh', 'e' if c[1][2] == 'evar_is_free' else 's', 'plug', 'v'), pol
        # `<X>.metavars().isdisjoint(delta)`: no metavariable of X is instantiated, hence X.instantiate(delta) == X.  One-directional
        # (a False answer says nothing): the atom ('disjoint', role) = True makes the child unchanged in the comparison, False
        # leaves it free, so on the False branch the code has to be right whether or not the child changes.
        if self.p_delta is not None and c[0] == 'call' and c[1][0] == 'attr' and c[1][2] == 'isdisjoint' and len(c[2]) == 1:
            a, b = c[1][1], c[2][0]
            keys = (self.p_delta, ('call', ('attr', self.p_delta, 'keys'), (), ()))
            recv = b if a in keys else (a if b in keys else None)
            if recv is not None and recv[0] == 'call' and recv[1][0] == 'attr' and recv[1][2] == 'metavars' and not recv[2]:
                x = recv[1][1]
                if x == SELF:
                    return (('disjoint', '*'), pol)
                r = self.fld(x)
                if r is not None:
                    return (('disjoint', r), pol)
        raise AnalysisError(f'{self.cls}.{self.meth}: condition outside the analysed subset: {show(c)}')


def subst_method_outcomes(py: PyRepo, cls: str, meth: str):
    fn = py.method(cls, meth, 'pattern')
    params = [a.arg for a in fn.args.args[1:]]
    cz = PySubstCanon(cls, meth, params)
    ev = PyEval(resolver=private_helper_resolver(py, cls))
    try:
        paths = ev.paths(fn)
    except Decline as d:
        raise AnalysisError(f'{cls}.{meth}: outside the analysed subset: {d}')
    out = []
    for p in paths:
        conds = set()
        skip = False
        for c, pol in p.conds:
            r = cz.cond(c, pol)
            if r is None:
                if not pol:
                    skip = True      # the branch in which the stub constraint check fails
                continue
            conds.add(r)
        if skip:
            continue
        if p.end[0] == 'return':
            out.append((conds, cz.term(p.end[1])))
        elif p.end[0] == 'raise':
            out.append((conds, 'raise'))
        else:
            raise AnalysisError(f'{cls}.{meth}: path falls off the end')
    return out


def notation_op_verdict(py: PyRepo, op: str):
    """How Instantiate.<op> relates to the operation on the expansion.
    -> ('delegates', '') | ('violation', reason) | ('undecided', reason)
    Decidable necessary condition for a non-delegating body: the stored plugs are part of the expansion, so a result that
    carries `self.inst` over unchanged leaves occurrences inside the plugs untouched."""
    fn = py.method('Instantiate', op, 'pattern')
    params = tuple(('param', a.arg) for a in fn.args.args[1:])
    ev = PyEval(resolver=private_helper_resolver(py, 'Instantiate'))
    rets = [p for p in ev.paths(fn) if p.end[0] == 'return']
    want = ('call', ('attr', ('call', ('attr', SELF, 'simplify'), (), ()), op), params, ())
    if rets and all(p.end[1] == want for p in rets):
        return 'delegates', ''
    INST = ('attr', SELF, 'inst')

    def carries_inst_unchanged(v) -> bool:
        if v[0] == 'call' and v[1] == ('name', 'Instantiate') and len(v[2]) == 2:
            m = v[2][1]
            while m[0] == 'call' and m[1] == ('name', 'frozendict') and len(m[2]) == 1:
                m = m[2][0]
            if m == INST:
                return True
        return any(carries_inst_unchanged(x) for x in v if isinstance(x, tuple) and x)

    # the "apply the operation to the arguments and keep the notation" optimisation: correct only if the body neither mentions nor
    # BINDS the variable at the positions of its metavariables; the judgements of this code base (evar_is_free = "not free",
    # true for a binder's own variable) cannot express that, so a guard made of them does not exclude capture
    def maps_op_over_inst(v) -> bool:
        if v[0] == 'call' and v[1] == ('name', 'Instantiate') and len(v[2]) == 2 and v[2][0] == ('attr', SELF, 'pattern'):
            m = v[2][1]
            while m[0] == 'call' and m[1] == ('name', 'frozendict') and len(m[2]) == 1:
                m = m[2][0]
            if m[0] == 'comp' and m[1] == 'dictcomp' and len(m[3]) == 1 and m[3][0][1] == ('call', ('attr', INST, 'items'), (), ()):
                elt = m[2]
                return elt[0] == 'pair' and elt[2][0] == 'call' and elt[2][1][0] == 'attr' and elt[2][1][2] == op and elt[2][2] == params
        return False

    for p in rets:
        if maps_op_over_inst(p.end[1]):
            guards = [c for c, b in p.conds if b is True]
            # the guard speaks only the vocabulary of the judgements (freshness, metavariable sets, instantiation): every call in it
            # is one of those - whatever the combination, it cannot tell "does not occur" from "occurs bound"
            VOCAB = {'evar_is_free', 'svar_is_free', 'metavars', 'instantiate', 'keys', 'values', 'items', 'issubset', 'issuperset',
                     'isdisjoint', 'simplify'}
            CTORS = {'MetaVar', 'EVar', 'SVar', 'frozendict', 'set', 'frozenset', 'len', 'all', 'any', 'dict', 'tuple', 'list'}

            def in_vocab(v) -> bool:
                if not isinstance(v, tuple) or not v:
                    return True
                if v[0] == 'call':
                    f = v[1]
                    if f[0] == 'attr' and f[2] not in VOCAB:
                        return False
                    if f[0] == 'name' and f[1] not in CTORS:
                        return False
                return all(in_vocab(x) for x in v if isinstance(x, tuple))
            only_freshness = bool(guards) and all(in_vocab(c) for c in guards) and any('evar_is_free' in repr(c) or 'svar_is_free' in repr(c)
                                                                                      or 'metavars' in repr(c) for c in guards)
            if only_freshness:
                return 'violation', (f'Instantiate.{op} keeps the notation and applies the operation to its arguments whenever the variable is '
                                     f'"not free" in the body ({[show(c) for c in guards]}); that is also true when the body BINDS the variable '
                                     f'(Exists/Mu judge their own binder fresh), and then occurrences inside the arguments are captured in '
                                     f'the expansion but substituted here - the result differs from the operation on the expansion')
    for p in rets:
        if carries_inst_unchanged(p.end[1]):
            return 'violation', (f'Instantiate.{op} returns {show(p.end[1])}: the stored plugs (self.inst) are carried over unchanged, '
                                 f'so occurrences inside the arguments of the notation are not affected, unlike in the expansion')
    return 'undecided', (f'Instantiate.{op} is not the delegation self.simplify().{op}(..); whether it equals the operation on the '
                         f'expansion cannot be decided statically')
