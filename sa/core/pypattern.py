"""Canonical atoms / terms for the methods of the Pattern classes in pattern.py (Python side)."""
from __future__ import annotations

import ast

from .decide import DF
from .pyeval import PyEval, Decline, show
from .pyfacts import PyRepo
from .report import AnalysisError
from ..spec.judgements import ROLES

SELF = ('param', 'self')
JNAME = {'evar_is_free': 'e_fresh'}


def pattern_classes(py: PyRepo):
    base = py.cls('Pattern', 'pattern')
    out = [c for c in py.subclasses(base)]
    return out


def role(cls: str, fname: str) -> str:
    try:
        return ROLES[cls][fname]
    except KeyError:
        raise AnalysisError(f'{cls} has a field `{fname}` unknown to the role table')


def operand(v, cls: str, q: str | None):
    """self.<field> / self.<field>.name / the query parameter -> role"""
    if q is not None and v == ('param', q):
        return 'x'
    if v == SELF:
        return 'self'
    if v[0] == 'attr' and v[1] == SELF:
        return role(cls, v[2])
    if v[0] == 'attr' and v[2] == 'name' and v[1][0] == 'attr' and v[1][1] == SELF:
        r = role(cls, v[1][2])
        if r == 'v':
            return 'v'          # ESubst.var / SSubst.var are EVar / SVar objects; `.name` is the id
    raise AnalysisError(f'operand outside the analysed subset in {cls}: {show(v)}')


def atom(v, cls: str, q: str | None):
    """boolean-valued expression -> formula over canonical atoms"""
    k = v[0]
    if k == 'const' and isinstance(v[1], bool):
        return ('const', v[1])
    if k == 'not':
        return ('not', atom(v[1], cls, q))
    if k == 'boolop':
        return (v[1],) + tuple(atom(x, cls, q) for x in v[2])
    if k == 'cmp' and v[1] in ('==', '!='):
        a, b = sorted([operand(v[2], cls, q), operand(v[3], cls, q)])
        f = ('atom', ('eq', a, b))
        return f if v[1] == '==' else ('not', f)
    if k == 'cmp' and v[1] in ('in', 'not in'):
        x = v[2]
        if x[0] == 'call' and x[1][0] == 'name' and x[1][1] in ('EVar', 'SVar') and len(x[2]) == 1:
            x = x[2][0]
        f = ('atom', ('in', operand(x, cls, q), operand(v[3], cls, q)))
        return f if v[1] == 'in' else ('not', f)
    if k == 'call' and v[1][0] == 'attr' and v[1][2] in JNAME and len(v[2]) == 1:
        recv = v[1][1]
        var = operand(v[2][0], cls, q)
        if recv[0] == 'call' and recv[1] == ('attr', SELF, 'simplify') and not recv[2]:
            return ('atom', ('J', JNAME[v[1][2]], 'expansion', var))
        return ('atom', ('J', JNAME[v[1][2]], operand(recv, cls, q), var))
    if k == 'call' and v[1][0] == 'name' and v[1][1] in ('any', 'all') and len(v[2]) == 1 and v[2][0][0] == 'comp':
        comp = v[2][0]
        elt, gens = comp[2], comp[3]
        if len(gens) == 1 and not gens[0][2]:
            tgt, it, _ = gens[0]
            if it == ('call', ('attr', ('attr', SELF, 'inst'), 'values'), (), ()) and elt[0] == 'call' \
                    and elt[1] == ('attr', ('bound', tgt), 'evar_is_free') and len(elt[2]) == 1:
                return ('atom', (v[1][1], 'e_fresh', 'inst', operand(elt[2][0], cls, q)))
    raise AnalysisError(f'condition outside the analysed subset in {cls}: {show(v)}')


def bool_method_df(py: PyRepo, cls: str, meth: str) -> DF:
    fn = py.method(cls, meth, 'pattern')
    params = [a.arg for a in fn.args.args]
    q = params[1] if len(params) > 1 else None
    ev = PyEval()
    try:
        paths = ev.paths(fn)
    except Decline as d:
        raise AnalysisError(f'{cls}.{meth}: outside the analysed subset: {d}')
    outcomes = []
    for p in paths:
        conds = []
        for c, pol in p.conds:
            f = atom(c, cls, q)
            if f[0] == 'not':
                f, pol = f[1], not pol
            if f[0] != 'atom':
                raise AnalysisError(f'{cls}.{meth}: compound condition not decomposed: {f}')
            conds.append((f[1], pol))
        if p.end[0] == 'return':
            res = ('formula', atom(p.end[1], cls, q))
        elif p.end[0] == 'raise':
            res = ('raise', show(p.end[1]))
        else:
            raise AnalysisError(f'{cls}.{meth}: path falls off the end')
        outcomes.append((tuple(conds), res))
    return DF(outcomes, f'{cls}.{meth}')
