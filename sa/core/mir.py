"""Engine B (1/2): rustc MIR reader.

Runs `rustc +nightly --emit=mir` on rust/src/lib.rs of the tree under analysis
(outside /repo, in a temp dir that is removed before returning) and parses the
textual MIR into functions, basic blocks, statements and terminators.  Cleanup
blocks and unwind edges are dropped.
"""
from __future__ import annotations

import os
import re
import shutil
import subprocess
import tempfile
from dataclasses import dataclass, field

from .report import AnalysisError, repo_path

# ----------------------------------------------------------------------------
# text -> functions


@dataclass
class Block:
    name: str
    stmts: list[str]
    term: str
    cleanup: bool = False


@dataclass
class Fn:
    name: str            # full name as printed
    short: str           # last path segment(s), e.g. `e_fresh`, `apply_esubst::{closure#0}`
    params: list[tuple[int, str]]
    ret: str
    blocks: dict[str, Block] = field(default_factory=dict)
    debug: dict[str, str] = field(default_factory=dict)      # debug name -> place text (first wins per name)
    debug_of: dict[int, str] = field(default_factory=dict)   # local -> debug name
    local_types: dict[int, str] = field(default_factory=dict)
    src_line: int = 0
    closure_loc: str = ''


_FN = re.compile(r'^fn (.+?)\((.*)\) -> (.+?) \{$')
_BB = re.compile(r'^    (bb\d+)( \(cleanup\))?: \{$')
_IMPL = re.compile(r'<impl at [^>]*?:(\d+):\d+: \d+:\d+>')


def dump_mir(src: str | None = None) -> str:
    src = src or repo_path('rust', 'src', 'lib.rs')
    if not os.path.exists(src):
        raise AnalysisError(f'anchor vanished: {src}')
    d = tempfile.mkdtemp(prefix='pi2mir-')
    try:
        out = os.path.join(d, 'lib.mir')
        env = dict(os.environ, RUSTUP_TOOLCHAIN='nightly')
        env.pop('RUSTFLAGS', None)
        cmd = ['rustc', '--edition', '2021', '--crate-type', 'lib', '--crate-name', 'checker',
               '--cap-lints', 'allow', '-Zmir-opt-level=0', '--emit=mir', '-o', out, src]
        try:
            r = subprocess.run(cmd, cwd=d, env=env, capture_output=True, text=True, timeout=300)
        except FileNotFoundError:
            raise AnalysisError('rustc not found on PATH')
        if r.returncode != 0 or not os.path.exists(out):
            raise AnalysisError('rustc could not produce MIR for rust/src/lib.rs:\n' + r.stderr[-3000:])
        with open(out) as f:
            return f.read()
    finally:
        shutil.rmtree(d, ignore_errors=True)


def _split_params(s: str) -> list[tuple[int, str]]:
    out = []
    for part in split_top(s):
        part = part.strip()
        if not part:
            continue
        m = re.match(r'_(\d+): (.*)$', part)
        if m:
            out.append((int(m.group(1)), m.group(2)))
    return out


def split_top(s: str, sep: str = ',') -> list[str]:
    """Split on top-level separators, respecting (), [], {}, <> and string literals."""
    out, depth, cur, i = [], 0, [], 0
    n = len(s)
    while i < n:
        c = s[i]
        if c == '"':
            j = i + 1
            while j < n and s[j] != '"':
                j += 2 if s[j] == '\\' else 1
            cur.append(s[i:j + 1])
            i = j + 1
            continue
        if c in '([{<':
            depth += 1
        elif c in ')]}':
            depth -= 1
        elif c == '>' and i > 0 and s[i - 1] not in '-=':
            depth -= 1
        if c == sep and depth == 0:
            out.append(''.join(cur))
            cur = []
        else:
            cur.append(c)
        i += 1
    if cur:
        out.append(''.join(cur))
    return out


def parse_mir(txt: str) -> dict[str, Fn]:
    fns: dict[str, Fn] = {}
    cur: Fn | None = None
    bb: Block | None = None
    lines: list[str] = []
    for line in txt.split('\n'):
        m = _FN.match(line)
        if m and not line.startswith(' '):
            full = m.group(1)
            short = _IMPL.sub('', full).lstrip(':')
            short = re.sub(r'^<impl at [^>]*>::', '', short)
            cur = Fn(full, short, _split_params(m.group(2)), m.group(3))
            mi = _IMPL.search(full)
            if mi:
                cur.src_line = int(mi.group(1))
                # name impl methods the way call sites print them: `Type::method`
                ty = ''
                if cur.params:
                    mt = re.match(r'&?(?:mut )?([A-Z]\w*)$', cur.params[0][1])
                    if mt:
                        ty = mt.group(1)
                if not ty:
                    mt = re.match(r'([A-Z]\w*)$', cur.ret)
                    if mt:
                        ty = mt.group(1)
                if ty and '{closure#' not in short:
                    short = f'{ty}::{short}'
                elif ty:
                    short = f'{ty}::{short}'
                cur.short = short
            mc = re.search(r'\{closure@([^}]*)\}', m.group(2))
            if mc and '{closure#' in full:
                cur.closure_loc = mc.group(1)
            # constructor shims appear twice; first definition wins
            key = short
            if key in fns:
                key = full if full not in fns else full + '#dup'
                if key.endswith('#dup'):
                    cur = None
                    continue
            fns[key] = cur
            bb = None
            continue
        if cur is None:
            continue
        if line == '}':
            cur = None
            continue
        m = _BB.match(line)
        if m:
            bb = Block(m.group(1), [], '', bool(m.group(2)))
            cur.blocks[bb.name] = bb
            lines = []
            continue
        if line == '    }':
            if bb is not None and lines:
                bb.term = lines[-1]
                bb.stmts = lines[:-1]
            bb = None
            continue
        s = line.strip()
        if bb is not None:
            if s:
                lines.append(s)
            continue
        md = re.match(r'debug (\w+) => (.+);$', s)
        if md:
            cur.debug.setdefault(md.group(1), md.group(2))
            ml = re.match(r'_(\d+)$', md.group(2))
            if ml:
                cur.debug_of.setdefault(int(ml.group(1)), md.group(1))
            continue
        ml = re.match(r'let (?:mut )?_(\d+): (.*);$', s)
        if ml:
            cur.local_types[int(ml.group(1))] = ml.group(2)
    return fns


# ----------------------------------------------------------------------------
# places / operands / rvalues

def _match_close(s: str, i: int) -> int:
    """index of the bracket matching s[i] (one of ([{<)."""
    depth = 0
    n = len(s)
    j = i
    while j < n:
        c = s[j]
        if c == '"':
            j += 1
            while j < n and s[j] != '"':
                j += 2 if s[j] == '\\' else 1
        elif c in '([{<':
            depth += 1
        elif c in ')]}' or (c == '>' and s[j - 1] not in '-='):
            depth -= 1
            if depth == 0:
                return j
        j += 1
    raise AnalysisError(f'unbalanced MIR text: {s!r}')


def parse_place(s: str, i: int = 0):
    """-> (place, next index).  place is a nested tuple:
    ('l', n) | ('deref', p) | ('down', p, Variant) | ('fld', p, k) | ('idx', p, operand-text) | ('ret',)"""
    if s.startswith('_', i):
        m = re.compile(r'_(\d+)').match(s, i)
        if not m:
            raise AnalysisError(f'bad place {s[i:]!r}')
        p = ('l', int(m.group(1)))
        i = m.end()
    elif s.startswith('(', i):
        if s.startswith('(*', i):
            inner, j = parse_place(s, i + 2)
            if not s.startswith(')', j):
                raise AnalysisError(f'bad deref place {s[i:]!r}')
            p = ('deref', inner)
            i = j + 1
        else:
            inner, j = parse_place(s, i + 1)
            if s.startswith(' as ', j):
                k = s.index(')', j)
                p = ('down', inner, s[j + 4:k])
                i = k + 1
            elif s.startswith('.', j):
                m = re.compile(r'\.(\d+): ').match(s, j)
                if not m:
                    raise AnalysisError(f'bad field place {s[i:]!r}')
                k = _match_close(s, i)
                p = ('fld', inner, int(m.group(1)), s[m.end():k].strip())          # MIR spells the field's type in the place
                i = k + 1
            else:
                raise AnalysisError(f'bad place {s[i:]!r}')
    else:
        raise AnalysisError(f'bad place {s[i:]!r}')
    while s.startswith('[', i):
        k = _match_close(s, i)
        p = ('idx', p, s[i + 1:k])
        i = k + 1
    return p, i


def try_place(s: str):
    try:
        p, i = parse_place(s, 0)
    except AnalysisError:
        return None
    return p if i == len(s) else None


def split_assign(stmt: str):
    """`PLACE = RHS;` -> (place, rhs) or None for non-assignments."""
    s = stmt.rstrip(';')
    if not (s.startswith('_') or s.startswith('(')):
        return None
    try:
        p, i = parse_place(s, 0)
    except AnalysisError:
        return None
    if not s.startswith(' = ', i):
        return None
    return p, s[i + 3:]


def split_call(rhs: str):
    """`CALLEE(ARGS)` -> (callee, [arg texts]) ; None if not call-shaped."""
    depth = 0
    i = 0
    n = len(rhs)
    while i < n:
        c = rhs[i]
        if c == '"':
            i += 1
            while i < n and rhs[i] != '"':
                i += 2 if rhs[i] == '\\' else 1
        elif c in '<[{':
            depth += 1
        elif c in ']}' or (c == '>' and rhs[i - 1] not in '-='):
            depth -= 1
        elif c == '(' and depth == 0:
            k = _match_close(rhs, i)
            if k != n - 1:
                return None
            return rhs[:i], [a.strip() for a in split_top(rhs[i + 1:k])]
        i += 1
    return None


@dataclass
class Term:
    kind: str                       # goto | switch | call | return | unreachable | drop | assert | diverge
    targets: list[tuple[str, str]] = field(default_factory=list)   # (label, bb)
    operand: str = ''               # switch operand / assert cond
    dest: object = None             # call destination place
    callee: str = ''
    args: list[str] = field(default_factory=list)


def parse_term(t: str) -> Term:
    t = t.rstrip(';')
    if t.startswith('goto -> '):
        return Term('goto', [('', t[8:].strip())])
    if t == 'return':
        return Term('return')
    if t in ('unreachable', 'resume', 'abort') or t.startswith('terminate') or t.startswith('unwind'):
        return Term('unreachable')
    if t.startswith('switchInt('):
        k = _match_close(t, 9)
        op = t[10:k]
        tg = re.findall(r'(-?\d+|otherwise): (bb\d+)', t[k:])
        return Term('switch', [(a, b) for a, b in tg], operand=op)
    if t.startswith('drop('):
        m = re.search(r'\[return: (bb\d+)', t)
        return Term('drop', [('', m.group(1))] if m else [])
    if t.startswith('assert('):
        k = _match_close(t, 6)
        m = re.search(r'\[success: (bb\d+)', t[k:])
        cond = split_top(t[7:k])[0].strip()
        return Term('assert', [('', m.group(1))] if m else [], operand=cond)
    if t.startswith('falseEdge') or t.startswith('falseUnwind'):
        m = re.search(r'\[real: (bb\d+)', t)
        return Term('goto', [('', m.group(1))])
    # call
    arrow = t.rfind(' -> ')
    if arrow < 0:
        raise AnalysisError(f'unknown terminator {t!r}')
    head, tail = t[:arrow], t[arrow + 4:]
    sa = split_assign(head)
    if sa is None:
        raise AnalysisError(f'unknown terminator {t!r}')
    dest, rhs = sa
    sc = split_call(rhs)
    if sc is None:
        raise AnalysisError(f'unknown call terminator {t!r}')
    m = re.search(r'\[return: (bb\d+)', tail)
    return Term('call', [('', m.group(1))] if m else [], dest=dest, callee=sc[0], args=sc[1])


_MIR_CACHE: dict[str, dict[str, Fn]] = {}


def load(src: str | None = None) -> dict[str, Fn]:
    key = src or repo_path('rust', 'src', 'lib.rs')
    if key not in _MIR_CACHE:
        _MIR_CACHE[key] = parse_mir(dump_mir(key))
    return _MIR_CACHE[key]


def get_fn(fns: dict[str, Fn], short: str) -> Fn:
    if short in fns:
        return fns[short]
    cands = [f for k, f in fns.items() if f.short == short or f.short.endswith('::' + short)]
    if len(cands) == 1:
        return cands[0]
    raise AnalysisError(f'anchor vanished: Rust function `{short}` not found in MIR ({len(cands)} candidates)')


# ----------------------------------------------------------------------------
# enum declarations (syntactic, from the Rust source): variant order and explicit discriminants

def _strip_comments(src: str) -> str:
    src = re.sub(r'/\*.*?\*/', ' ', src, flags=re.S)
    return re.sub(r'//[^\n]*', '', src)


def parse_enums(src_text: str) -> dict[str, list[tuple[str, int]]]:
    src = _strip_comments(src_text)
    out: dict[str, list[tuple[str, int]]] = {}
    for m in re.finditer(r'\benum\s+(\w+)\s*\{', src):
        name = m.group(1)
        k = _match_close(src, m.end() - 1)
        body = src[m.end():k]
        variants = []
        nxt = 0
        for part in split_top(body):
            part = re.sub(r'#\[[^\]]*\]', '', part).strip()
            if not part:
                continue
            mv = re.match(r'(\w+)', part)
            if not mv:
                continue
            vn = mv.group(1)
            rest = part[mv.end():].strip()
            me = re.search(r'=\s*(.+)$', rest) if not rest.startswith(('{', '(')) or '=' in rest.split('}')[-1].split(')')[-1] else None
            if me:
                expr = me.group(1).strip()
                if not re.fullmatch(r'[\d\s+\-*()x_a-fA-F]+', expr):
                    raise AnalysisError(f'enum {name}: unsupported discriminant expression {expr!r}')
                nxt = int(eval(expr.replace('_', ''), {'__builtins__': {}}))  # arithmetic on literals only
            variants.append((vn, nxt))
            nxt += 1
            # field names in declaration order (MIR projects by index, aggregates print names)
            fl: list[str] = []
            if rest.startswith('{'):
                kk = _match_close(rest, 0)
                for fp in split_top(rest[1:kk]):
                    fp = re.sub(r'#\[[^\]]*\]', '', fp).strip()
                    mf = re.match(r'(?:pub\s+)?(\w+)\s*:', fp)
                    if mf:
                        fl.append(mf.group(1))
            elif rest.startswith('('):
                kk = _match_close(rest, 0)
                fl = [str(i) for i, fp in enumerate(split_top(rest[1:kk])) if fp.strip()]
            ENUM_FIELDS.setdefault(name, {}).setdefault(vn, fl)
        out.setdefault(name, variants)
    return out


ENUM_FIELDS: dict[str, dict[str, list[str]]] = {}


def field_name(enum: str, variant: str, k: int) -> str:
    try:
        return ENUM_FIELDS[enum][variant][k]
    except (KeyError, IndexError):
        raise AnalysisError(f'unknown field {k} of {enum}::{variant}')


_ENUM_CACHE: dict[str, dict] = {}


def load_enums(src: str | None = None) -> dict[str, list[tuple[str, int]]]:
    key = src or repo_path('rust', 'src', 'lib.rs')
    if key not in _ENUM_CACHE:
        with open(key) as f:
            _ENUM_CACHE[key] = parse_enums(f.read())
    return _ENUM_CACHE[key]
