"""Engine D: symbolic path evaluation of Python function bodies (ast only).

Every acyclic path through a body is enumerated; names hold symbolic values
(nested tuples), `if`/`assert`/boolean operators contribute decisions, calls and
attribute stores are recorded as events in order.  Loops are evaluated once with
their effects wrapped in a `loop` event.  Constructs outside the subset raise
`Decline` (the caller decides whether that is an analysis error).
"""
from __future__ import annotations

import ast
import copy
from dataclasses import dataclass, field

from .report import AnalysisError


class Decline(Exception):
    pass


@dataclass
class PEvent:
    kind: str            # call | setattr | setitem | aug | loop | delete
    value: object = None
    extra: object = None
    node: ast.AST | None = None


@dataclass
class PPath:
    conds: list = field(default_factory=list)     # (value, bool)
    events: list = field(default_factory=list)
    end: tuple = ('fall',)                        # ('return', v) | ('raise', v) | ('fall',) | ('break',) | ('continue',)
    env: dict = field(default_factory=dict)
    node: ast.AST | None = None                   # the return / raise statement


CMP = {ast.Eq: '==', ast.NotEq: '!=', ast.Lt: '<', ast.LtE: '<=', ast.Gt: '>', ast.GtE: '>=', ast.Is: 'is',
       ast.IsNot: 'is not', ast.In: 'in', ast.NotIn: 'not in'}
NEG = {'==': '!=', '!=': '==', 'is': 'is not', 'is not': 'is', 'in': 'not in', 'not in': 'in',
       '<': '>=', '>=': '<', '>': '<=', '<=': '>'}


_MATCH_FIELDS: dict[str, list[str]] = {}


def DEFAULT_MATCH_FIELDS(name: str):
    return _MATCH_FIELDS.get(name.split('.')[-1])


def register_match_fields(table: dict[str, list[str]]) -> None:
    _MATCH_FIELDS.update(table)


class PyEval:
    MAX_PATHS = 4000

    def __init__(self, match_fields=None, resolver=None, max_inline: int = 3, unroll_literal_loops: bool = False):
        # match_fields(class name) -> list of positional field names for `case C(a, b)` patterns
        self.match_fields = match_fields or DEFAULT_MATCH_FIELDS
        # resolver(call node, env, evaluator) -> (FunctionDef, value bound to its first parameter or None) | None.
        # A resolved helper called as a whole statement (`x = h(..)`, `h(..)`, `return h(..)`) is evaluated in place: its paths
        # fork the caller's, its attribute stores go to the shared heap part of the environment (keys that are tuples).
        self.resolver = resolver
        self.max_inline = max_inline
        self._inlining: list = []
        self._loop_stack: list = []
        # opt-in: `for x in (a, b): body` over a display of at most 8 elements (also a comprehension over range(<small constant>)) is
        # evaluated as body[x:=a]; body[x:=b] on the value level (break / continue / return keep their meaning)
        self.unroll_literal_loops = unroll_literal_loops

    def _inline_call(self, call: ast.Call, p: PPath):
        """-> [(path, value)] (value None for a raising path) or None if the call is not inlined"""
        if len(self._inlining) >= self.max_inline:
            return None
        if any(k.arg is None for k in call.keywords):
            return None
        has_star = any(isinstance(a, ast.Starred) for a in call.args)
        env = dict(p.env)
        # a function defined earlier in the function under evaluation (a closure): its free variables are the caller's bindings
        # at the time of the call (Python closures bind late), its own locals do not leak back
        closure = False
        hit = None
        if isinstance(call.func, ast.Name):
            ld = env.get(call.func.id)
            if isinstance(ld, tuple) and len(ld) == 3 and ld[0] == 'localdef' and ld[2] in self.localdefs:
                g = self.localdefs[ld[2]]
                if not any(isinstance(n, (ast.Nonlocal, ast.Global)) for n in ast.walk(g)):
                    hit, closure = (g, None), True
        if hit is None:
            if self.resolver is None:
                return None
            hit = self.resolver(call, env, self)
        if hit is None:
            return None
        fn, selfval = hit
        if any(f is fn for f in self._inlining) or fn.args.kwarg:
            return None
        if any(isinstance(n, (ast.Yield, ast.YieldFrom)) for n in ast.walk(fn)):
            return None                      # a generator function: the call makes an iterator, its body runs later
        if has_star and not fn.args.vararg:
            return None                      # `f(*xs)` into named parameters: which one gets what is not known
        ev: list = []
        argv = []
        for a in call.args:
            if isinstance(a, ast.Starred):
                argv.append(('star', self.expr(a.value, env, ev)))
                continue
            # an argument that is itself a resolved helper call with a single straight path: its value, its events
            if isinstance(a, ast.Call):
                sub = self._inline_call(a, PPath(conds=list(p.conds), events=[], env=dict(env)))
                if sub is not None and len(sub) == 1 and sub[0][1] is not None and len(sub[0][0].conds) == len(p.conds):
                    argv.append(sub[0][1])
                    ev.extend(sub[0][0].events)
                    env.update({k: v for k, v in sub[0][0].env.items() if isinstance(k, tuple)})
                    continue
            argv.append(self.expr(a, env, ev))
        kwv = {k.arg: self.expr(k.value, env, ev) for k in call.keywords}
        allpos = list(fn.args.posonlyargs + fn.args.args)
        params = list(allpos)
        cenv = dict(env) if closure else {k: v for k, v in env.items() if isinstance(k, tuple)}
        if selfval is not None:
            if not params:
                return None
            cenv[params[0].arg] = selfval
            params = params[1:]
        if len(argv) > len(params) and not fn.args.vararg:
            return None
        if any(isinstance(x, tuple) and x[:1] == ('star',) for x in argv[:len(params)]):
            return None                      # an unpacked sequence would have to fill named parameters
        if fn.args.vararg:
            # `def h(self, a, *rest)`: rest is the tuple of the surplus positional arguments
            cenv[fn.args.vararg.arg] = ('tuple', tuple(argv[len(params):]))
        defaults = {}
        if fn.args.defaults:
            for a, d in zip(allpos[-len(fn.args.defaults):], fn.args.defaults):
                defaults[a.arg] = d
        for a, kd in zip(fn.args.kwonlyargs, fn.args.kw_defaults):
            if kd is not None:
                defaults[a.arg] = kd
        for i, a in enumerate(params + list(fn.args.kwonlyargs)):
            if i < len(argv) and i < len(params):
                cenv[a.arg] = argv[i]
            elif a.arg in kwv:
                cenv[a.arg] = kwv[a.arg]
            elif a.arg in defaults:
                cenv[a.arg] = self.expr(defaults[a.arg], {}, [])
            else:
                return None
        self._inlining.append(fn)
        try:
            outs = self._block(fn.body, [PPath(conds=list(p.conds), events=p.events + ev, env=cenv)])
        finally:
            self._inlining.pop()
        res = []
        for q in outs:
            new_env = {k: v for k, v in env.items() if not isinstance(k, tuple)}
            new_env.update({k: v for k, v in q.env.items() if isinstance(k, tuple)})
            if q.end[0] == 'return':
                res.append((PPath(q.conds, q.events, ('fall',), new_env), q.end[1]))
            elif q.end == ('fall',):
                res.append((PPath(q.conds, q.events, ('fall',), new_env), ('const', None)))
            elif q.end[0] == 'raise':
                res.append((PPath(q.conds, q.events, q.end, new_env, q.node), None))
            else:
                return None
        return res

    # -- entry -----------------------------------------------------------
    def paths(self, fn: ast.FunctionDef, env: dict | None = None) -> list[PPath]:
        e: dict = {}
        args = fn.args
        for a in args.posonlyargs + args.args + args.kwonlyargs:
            e[a.arg] = ('param', a.arg)
        if args.vararg:
            e[args.vararg.arg] = ('param', '*' + args.vararg.arg)
        if args.kwarg:
            e[args.kwarg.arg] = ('param', '**' + args.kwarg.arg)
        if env:
            e.update(env)
        out = self._block(fn.body, [PPath(env=e)])
        if len(out) > self.MAX_PATHS:
            raise Decline('too many paths')
        for q in out:
            self._derive_isinstance(q)
        return out

    @staticmethod
    def _derive_isinstance(q: PPath) -> None:
        """what a test against a tuple of classes says about the single classes: `not isinstance(x, (A, B))` is `not isinstance(x, A)`
        and `not isinstance(x, B)`; `isinstance(x, (A, B))` with `not isinstance(x, A)` is `isinstance(x, B)`.  The derived
        conditions are appended (a guard clause followed by a two-way split then reads like the three-way chain)."""
        ISI = ('name', 'isinstance')
        have = {}
        for c, b in q.conds:
            if c[0] == 'call' and c[1] == ISI and len(c[2]) == 2:
                try:
                    have[c] = b
                except TypeError:
                    return
        for c, b in list(have.items()):
            if c[2][1][0] != 'tuple':
                continue
            x, alts = c[2][0], c[2][1][1]
            singles = [('call', ISI, (x, a), ()) for a in alts]
            if b is False:
                for sc in singles:
                    if sc not in have:
                        have[sc] = False
                        q.conds.append((sc, False))
            else:
                open_ = [sc for sc in singles if have.get(sc) is not False]
                if len(open_) == 1 and open_[0] not in have:
                    have[open_[0]] = True
                    q.conds.append((open_[0], True))

    # -- statements --------------------------------------------------------
    def _block(self, stmts, live: list[PPath]) -> list[PPath]:
        done: list[PPath] = []
        for st in stmts:
            nxt: list[PPath] = []
            for p in live:
                for q in self._stmt(st, p):
                    if not self._feasible(q):
                        continue
                    (nxt if q.end == ('fall',) else done).append(q)
            live = nxt
            if len(live) + len(done) > self.MAX_PATHS:
                raise Decline('too many paths')
            if not live:
                break
        return done + live

    @staticmethod
    def _feasible(p: PPath) -> bool:
        """a path that assumes one symbolic value both true and false is not a path of the program (`if x: .. elif x:`)"""
        seen = {}
        for c, b in p.conds:
            # nothing is a member of an empty display
            if b is True and c[0] == 'cmp' and c[1] == 'in' and c[3] in (('dict', ()), ('list', ()), ('tuple', ()), ('set', ())):
                return False
            try:
                if seen.setdefault(c, b) != b:
                    return False
            except TypeError:          # unhashable atom
                continue
        return True

    def _fork(self, p: PPath, conds=(), events=(), end=('fall',), env=None, node=None) -> PPath:
        # a decision is also recorded in the event list (kind 'cond'), after the events of evaluating its test: rules that ask
        # "was X checked BEFORE effect Y" read the order off the events instead of off line numbers
        marks = [PEvent('cond', c, node=node) for c in conds]
        return PPath(p.conds + list(conds), p.events + list(events) + marks, end, dict(env if env is not None else p.env), node)

    _LIST_MUTATORS = ('append', 'reverse', 'extend', 'insert', 'sort', 'clear', 'pop', 'remove', 'update')

    @staticmethod
    def _is_seq_value(v) -> bool:
        return v[0] in ('list',) or (v[0] == 'comp' and v[1] == 'listcomp') or (v[0] == 'sub' and v[2][0] == 'slice') \
            or (v[0] == 'call' and v[1] in (('name', 'list'), ('name', 'sorted')))

    def _mutate_local_list(self, call, v, env) -> None:
        """`xs.append(e)` / `xs.reverse()` .. on a local that holds a list built in this function: the local now denotes the new
        contents (a display grows, a reversal is list(reversed(..))); any other in-place change makes it opaque rather than stale"""
        if not (isinstance(call, ast.Call) and isinstance(call.func, ast.Attribute) and isinstance(call.func.value, ast.Name)
                and call.func.attr in self._LIST_MUTATORS):
            return
        name = call.func.value.id
        cur = env.get(name)
        if isinstance(cur, tuple) and cur and call.func.attr == 'update' and len(v[2]) == 1 and not v[3] \
                and (cur[0] == 'dict' or (cur[0] == 'comp' and cur[1] == 'dictcomp')
                     or (cur[0] == 'call' and cur[1] == ('name', 'dict'))):
            # d.update(m) on a local map built in this function: d now denotes {**d, **m} (later entries win, earlier positions stay)
            env[name] = ('dict', ((('const', '**'), cur), (('const', '**'), v[2][0])))
            return
        if not isinstance(cur, tuple) or not cur or not self._is_seq_value(cur):
            return
        attr = call.func.attr
        if attr == 'append' and cur[0] == 'list' and len(v[2]) == 1 and not v[3]:
            env[name] = ('list', cur[1] + (v[2][0],))
        elif attr == 'extend' and cur[0] == 'list' and len(v[2]) == 1 and not v[3]:
            # xs.extend(it): the display grows by the elements of `it` - spelled out when `it` is a display, else as `*it`
            more = v[2][0]
            if more[0] in ('list', 'tuple') and not any(x[0] == 'star' for x in more[1]):
                env[name] = ('list', cur[1] + tuple(more[1]))
            else:
                env[name] = ('list', cur[1] + (('star', more),))
        elif attr == 'reverse' and not v[2]:
            if cur[0] == 'list':
                env[name] = ('list', tuple(reversed(cur[1])))
            else:
                env[name] = ('call', ('name', 'list'), (('call', ('name', 'reversed'), (cur,), ()),), ())
        else:
            env[name] = ('mutated', cur, attr, call.lineno)

    _NO_HOIST = (ast.Lambda, ast.IfExp, ast.BoolOp, ast.ListComp, ast.SetComp, ast.DictComp, ast.GeneratorExp, ast.NamedExpr,
                 ast.Await, ast.Yield, ast.YieldFrom)

    def _nested_calls(self, root):
        """calls below `root` (not root itself) that are evaluated unconditionally, innermost first, left to right"""
        out = []

        def visit(n):
            if isinstance(n, self._NO_HOIST):
                return
            for ch in ast.iter_child_nodes(n):
                visit(ch)
            if isinstance(n, ast.Call) and n is not root:
                out.append(n)
        visit(root)
        return out

    def _hoist_nested(self, st, p: PPath):
        """`f(a, [g(x)])` where g is a resolved helper: evaluated as `t = g(x); f(a, [t])` (the helper's paths fork the caller's).
        The expressions that would have been evaluated before g are names, attributes and displays of them in the code concerned,
        so the order of evaluation is not changed observably."""
        if self.resolver is None or len(self._inlining) >= self.max_inline or getattr(st, 'value', None) is None:
            return None
        cands = self._nested_calls(st.value)
        if not cands:
            return None
        env = dict(p.env)
        for i, c in enumerate(cands):
            if any(isinstance(a, ast.Starred) for a in c.args) or self.resolver(c, env, self) is None:
                continue
            inl = self._inline_call(c, p)
            if inl is None:
                continue
            import copy
            st2 = copy.deepcopy(st)
            c2 = self._nested_calls(st2.value)[i]
            tmp = f'__h{c.lineno}_{c.col_offset}'

            class R(ast.NodeTransformer):
                def visit_Call(self, n):
                    if n is c2:
                        return ast.copy_location(ast.Name(id=tmp, ctx=ast.Load()), n)
                    return self.generic_visit(n)
            st2.value = R().visit(st2.value)
            out = []
            for q, v in inl:
                if v is None:
                    out.append(q)
                    continue
                q.env[tmp] = v
                for r in self._stmt(st2, q):
                    r.env.pop(tmp, None)
                    out.append(r)
            return out
        return None

    def _stmt(self, st, p: PPath) -> list[PPath]:
        self._path_events = p.events               # what happened on this path before the statement (see distinct_calls)
        if isinstance(st, (ast.Expr, ast.Assign, ast.AnnAssign, ast.AugAssign, ast.Return)) and self.resolver is not None:
            h = self._hoist_nested(st, p)
            if h is not None:
                return h
        if isinstance(st, ast.Expr) and isinstance(st.value, (ast.Yield, ast.YieldFrom)):
            # a generator hands a value (or every value of another iterable) to its consumer: recorded as an event
            env = dict(p.env)
            ev0: list = []
            v = self.expr(st.value.value, env, ev0) if st.value.value is not None else ('const', None)
            ev0.append(PEvent('yield' if isinstance(st.value, ast.Yield) else 'yieldfrom', v, node=st))
            return [self._fork(p, events=ev0, env=env)]
        if isinstance(st, ast.Expr):
            if isinstance(st.value, ast.Constant):
                return [p]
            if isinstance(st.value, ast.Call):
                inl = self._inline_call(st.value, p)
                if inl is not None:
                    return [q for q, _v in inl]
            env = dict(p.env)
            ev: list = []
            v = self.expr(st.value, env, ev)
            if v[0] == 'call' or v[0] == 'await':
                ev.append(PEvent('call', v, node=st))
            self._mutate_local_list(st.value, v, env)
            return [self._fork(p, events=ev, env=env)]
        if isinstance(st, ast.Pass):
            return [p]
        if isinstance(st, (ast.Assign, ast.AnnAssign)):
            if isinstance(st, ast.AnnAssign) and st.value is None:
                return [p]
            if isinstance(st.value, ast.IfExp):
                # `x = a if c else b` is `if c: x = a` / `else: x = b` (a later test of c on the same path then agrees with the choice)
                import copy
                s1, s2 = copy.copy(st), copy.copy(st)
                s1.value, s2.value = st.value.body, st.value.orelse
                iff = ast.If(test=st.value.test, body=[s1], orelse=[s2])
                return self._stmt(ast.copy_location(iff, st), p)
            if isinstance(st.value, ast.Call):
                inl = self._inline_call(st.value, p)
                if inl is not None:
                    out = []
                    for q, v in inl:
                        if v is None:
                            out.append(q)
                            continue
                        env, ev = dict(q.env), []
                        for t in (st.targets if isinstance(st, ast.Assign) else [st.target]):
                            self._bind(t, v, env, ev, st)
                        out.append(self._fork(q, events=ev, env=env))
                    return out
            env = dict(p.env)
            ev = []
            v = self.expr(st.value, env, ev)
            targets = st.targets if isinstance(st, ast.Assign) else [st.target]
            for t in targets:
                self._bind(t, v, env, ev, st)
            return [self._fork(p, events=ev, env=env)]
        if isinstance(st, ast.AugAssign):
            env = dict(p.env)
            ev = []
            v = self.expr(st.value, env, ev)
            tgt = self.expr(st.target, env, ev)
            ev.append(PEvent('aug', (type(st.op).__name__, tgt, v), node=st))
            if isinstance(st.target, ast.Name):
                env[st.target.id] = ('binop', type(st.op).__name__, tgt, v)
            return [self._fork(p, events=ev, env=env)]
        if isinstance(st, ast.Return):
            if isinstance(st.value, ast.IfExp):
                # `return a if c else b` is `if c: return a` / `else: return b`
                iff = ast.If(test=st.value.test, body=[ast.copy_location(ast.Return(value=st.value.body), st)],
                             orelse=[ast.copy_location(ast.Return(value=st.value.orelse), st)])
                return self._stmt(ast.copy_location(iff, st), p)
            if isinstance(st.value, ast.Call):
                inl = self._inline_call(st.value, p)
                if inl is not None:
                    return [q if v is None else self._fork(q, end=('return', v), node=st) for q, v in inl]
            env = dict(p.env)
            ev = []
            v = self.expr(st.value, env, ev) if st.value is not None else ('const', None)
            return [self._fork(p, events=ev, end=('return', v), env=env, node=st)]
        if isinstance(st, ast.Raise):
            env = dict(p.env)
            ev = []
            v = self.expr(st.exc, env, ev) if st.exc is not None else ('const', None)
            return [self._fork(p, events=ev, end=('raise', v), env=env, node=st)]
        if isinstance(st, ast.Assert):
            out = []
            for conds, truth, env, ev in self._test(st.test, dict(p.env)):
                if truth:
                    out.append(self._fork(p, conds, ev, env=env))
                else:
                    out.append(self._fork(p, conds, ev, end=('raise', ('name', 'AssertionError')), env=env, node=st))
            return out
        if isinstance(st, ast.If):
            out = []
            for conds, truth, env, ev in self._test(st.test, dict(p.env)):
                q = self._fork(p, conds, ev, env=env)
                body = st.body if truth else st.orelse
                out.extend(self._block(body, [q]) if body else [q])
            return out
        if isinstance(st, (ast.For, ast.While)):
            return self._loop(st, p)
        if isinstance(st, ast.Match):
            return self._match(st, p)
        if isinstance(st, (ast.FunctionDef, ast.AsyncFunctionDef)):
            env = dict(p.env)
            env[st.name] = ('localdef', st.name, id(st))
            self.localdefs[id(st)] = st
            return [self._fork(p, env=env)]
        if isinstance(st, ast.Nonlocal) or isinstance(st, ast.Global):
            return [p]
        if isinstance(st, ast.Delete):
            env = dict(p.env)
            ev = []
            for t in st.targets:
                ev.append(PEvent('delete', self.expr(t, env, ev), node=st))
            return [self._fork(p, events=ev, env=env)]
        if isinstance(st, ast.With):
            env = dict(p.env)
            ev = []
            for it in st.items:
                v = self.expr(it.context_expr, env, ev)
                ev.append(PEvent('call', ('call', ('attr', v, '__enter__'), (), ()), node=st))
                if it.optional_vars is not None:
                    self._bind(it.optional_vars, ('enter', v), env, ev, st)
            return self._block(st.body, [self._fork(p, events=ev, env=env)])
        if isinstance(st, ast.Try):
            # bodies are evaluated as straight-line code; handlers are alternative continuations from the start
            out = self._block(st.body + st.orelse + st.finalbody, [p])
            for h in st.handlers:
                env = dict(p.env)
                if h.name:
                    env[h.name] = ('exc', ast.unparse(h.type) if h.type else 'BaseException')
                q = self._fork(p, conds=[(('except', ast.unparse(h.type) if h.type else ''), True)], env=env)
                out.extend(self._block(h.body + st.finalbody, [q]))
            return out
        if isinstance(st, ast.Break):
            return [self._fork(p, end=('break',), node=st)]
        if isinstance(st, ast.Continue):
            return [self._fork(p, end=('continue',), node=st)]
        if isinstance(st, (ast.Import, ast.ImportFrom)):
            return [p]
        raise Decline(f'statement {type(st).__name__} at line {st.lineno}')

    localdefs: dict[int, ast.FunctionDef] = {}

    def _loop(self, st, p: PPath) -> list[PPath]:
        if isinstance(st, ast.For) and isinstance(st.iter, ast.Call) and self.resolver is not None and not getattr(st, '_iter_inlined', False):
            # `for x in helper(..)`: the helper is evaluated in place (as `tmp = helper(..); for x in tmp`)
            inl = self._inline_call(st.iter, p)
            if inl is not None:
                tmp = f'__iter_{st.lineno}_{st.col_offset}'
                st2 = ast.copy_location(ast.For(target=st.target, iter=ast.copy_location(ast.Name(id=tmp, ctx=ast.Load()), st.iter),
                                                body=st.body, orelse=st.orelse), st)
                st2._iter_inlined = True
                out = []
                for q, v in inl:
                    if v is None:
                        out.append(q)            # the helper raised
                        continue
                    q.env[tmp] = v
                    out.extend(self._loop(st2, q))
                return out
        env = dict(p.env)
        ev: list = []
        # a loop over a short literal that grows a local display (`code.append(..)` / `code.extend(..)`) is evaluated element by
        # element whatever the option says: summarised as a loop, the display would only become opaque
        builds = isinstance(st, ast.For) and any(
            isinstance(x, ast.Expr) and isinstance(x.value, ast.Call) and isinstance(x.value.func, ast.Attribute)
            and x.value.func.attr in ('append', 'extend') and isinstance(x.value.func.value, ast.Name)
            and isinstance(env.get(x.value.func.value.id), tuple) and env[x.value.func.value.id][:1] == ('list',)
            for x in st.body)
        if isinstance(st, ast.For) and (self.unroll_literal_loops or builds):
            it0 = self._small_display(self.expr(st.iter, dict(env), []))
            if it0 is not None:
                live, done, broke = [p], [], []
                for el in it0:
                    nxt = []
                    for q in live:
                        qenv, qev = dict(q.env), []
                        self._bind(st.target, el, qenv, qev, st)
                        for bp in self._block(st.body, [self._fork(q, events=qev, env=qenv)]):
                            if bp.end[0] in ('fall', 'continue'):
                                nxt.append(PPath(bp.conds, bp.events, ('fall',), bp.env, bp.node))
                            elif bp.end[0] == 'break':
                                broke.append(PPath(bp.conds, bp.events, ('fall',), bp.env, bp.node))
                            else:
                                done.append(bp)
                    live = nxt
                    if len(live) + len(done) > self.MAX_PATHS:
                        raise Decline('too many paths')
                tail = self._block(st.orelse, live) if st.orelse and live else live
                return done + tail + broke
        if isinstance(st, ast.For):
            it = self.expr(st.iter, env, ev)
            benv = dict(env)
            # a loop nested in a loop over the same collection ranges over its own element: elem(l), elem'(l)
            dup = sum(1 for x in self._loop_stack if x == it)
            self._bind(st.target, ('elem', it) if not dup else ('elem', it, dup), benv, ev, st)
            head = ('for', ast.unparse(st.target), it)
        else:
            benv = dict(env)
            head = ('while', self.expr(st.test, benv, ev))
        self._loop_stack.append(it if isinstance(st, ast.For) else None)
        try:
            body_paths = self._block(st.body, [PPath(env=benv)])
        finally:
            self._loop_stack.pop()
        assigned = {n.id for s in st.body for n in ast.walk(s) if isinstance(n, ast.Name) and isinstance(n.ctx, ast.Store)}
        if isinstance(st, ast.For):
            assigned |= {n.id for n in ast.walk(st.target) if isinstance(n, ast.Name)}
        out = []
        # paths that return / raise from inside the loop leave the function
        for bp in body_paths:
            if bp.end[0] in ('return', 'raise'):
                out.append(PPath(p.conds + [(('in-loop', head), True)] + bp.conds, p.events + ev + bp.events,
                                 bp.end, bp.env, bp.node))
        for n in assigned:
            env[n] = ('loopvar', n, st.lineno)
        self._filled_lists(st, env, body_paths, it if isinstance(st, ast.For) else None)
        ev.append(PEvent('loop', head, extra=body_paths, node=st))
        cont = self._fork(p, events=ev, env=env)
        out.extend(self._block(st.orelse, [cont]) if st.orelse else [cont])
        return out

    @staticmethod
    def _small_display(v):
        """elements of a display of at most 8 plain elements, or of a comprehension over range(<constant <= 8>) without filter"""
        if v[0] in ('tuple', 'list') and 1 <= len(v[1]) <= 8 and not any(x[0] == 'star' for x in v[1]):
            return list(v[1])
        if v[0] == 'comp' and v[1] in ('gen', 'listcomp') and len(v[3]) == 1 and not v[3][0][2] and ',' not in v[3][0][0]:
            it = v[3][0][1]
            if it[0] == 'call' and it[1] == ('name', 'range') and len(it[2]) == 1 and it[2][0][0] == 'const' and isinstance(it[2][0][1], int) \
                    and 1 <= it[2][0][1] <= 8 and not it[3]:
                var = v[3][0][0].strip()

                def inst(x, k):
                    if x == ('bound', var):
                        return ('const', k)
                    return tuple(inst(y, k) if isinstance(y, tuple) else y for y in x) if isinstance(x, tuple) else x

                def fold(x):
                    """(a, b)[0] style subscripts of displays by a constant"""
                    if not isinstance(x, tuple) or not x:
                        return x
                    x = tuple(fold(y) if isinstance(y, tuple) else y for y in x)
                    if x[0] == 'sub' and x[2][0] == 'const' and isinstance(x[2][1], int) and x[1][0] in ('tuple', 'list') \
                            and -len(x[1][1]) <= x[2][1] < len(x[1][1]):
                        return x[1][1][x[2][1]]
                    return x
                return [fold(inst(v[2], k)) for k in range(it[2][0][1])]
        return None

    def _filled_lists(self, st, env, body_paths, it) -> None:
        """locals holding a list that the loop body changes in place: `xs = []; for t in IT: xs.append(E)` with exactly one append of
        the same E on every path that does not raise is the comprehension [E for t in IT]; anything else makes the local opaque"""
        touched = set()
        for s_ in st.body:
            for n in ast.walk(s_):
                if isinstance(n, ast.Call) and isinstance(n.func, ast.Attribute) and isinstance(n.func.value, ast.Name) \
                        and n.func.attr in self._LIST_MUTATORS:
                    touched.add(n.func.value.id)
        for name in sorted(touched):
            cur = env.get(name)
            if not isinstance(cur, tuple) or not cur or not self._is_seq_value(cur):
                continue
            new = ('mutated', cur, 'loop', st.lineno)
            live = [bp for bp in body_paths if bp.end[0] != 'raise']
            if isinstance(st, ast.For) and cur == ('list', ()) and live and all(bp.end[0] in ('fall', 'continue') for bp in live):
                elems = []
                for bp in live:
                    muts = [e.value for e in bp.events if e.kind == 'ecall' and e.value[1][0] == 'attr' and e.value[1][2] in self._LIST_MUTATORS
                            and e.value[1][1][0] == 'list']
                    if len(muts) == 1 and muts[0][1] == ('attr', ('list', ()), 'append') and len(muts[0][2]) == 1 and not muts[0][3]:
                        elems.append(muts[0][2][0])
                    else:
                        elems = None
                        break
                if elems and all(x == elems[0] for x in elems):
                    dup = sum(1 for x in self._loop_stack if x == it)
                    elem = ('elem', it) if not dup else ('elem', it, dup)
                    table = {}
                    if isinstance(st.target, ast.Name):
                        table[elem] = ('bound', st.target.id)
                    elif isinstance(st.target, (ast.Tuple, ast.List)) and all(isinstance(x, ast.Name) for x in st.target.elts):
                        for i, x in enumerate(st.target.elts):
                            table[('item', elem, i)] = ('bound', x.id)
                    if table:
                        def sub(v):
                            if not isinstance(v, tuple) or not v:
                                return v
                            if v in table:
                                return table[v]
                            return tuple(sub(y) if isinstance(y, tuple) else y for y in v)
                        new = ('comp', 'listcomp', sub(elems[0]), ((ast.unparse(st.target), it, ()),))
            env[name] = new

    def _compile_pattern(self, pat, subj, env, ev):
        """a match pattern against the value `subj` -> alternatives [(conds, bindings)]: class patterns are `isinstance` atoms with the
        sub-patterns applied to the fields, sequence patterns apply element-wise (to the elements of a display, or to the items of an
        opaque value whose length is tested), literals are equalities (booleans: the element itself as the atom), or-patterns
        contribute their alternatives in order"""
        if isinstance(pat, ast.MatchAs):
            if pat.pattern is None:
                return [([], {pat.name: subj} if pat.name else {})]
            return [(c, dict(b, **({pat.name: subj} if pat.name else {}))) for c, b in self._compile_pattern(pat.pattern, subj, env, ev)]
        if isinstance(pat, ast.MatchOr):
            if all(isinstance(sp, ast.MatchClass) and not sp.patterns and not sp.kwd_patterns for sp in pat.patterns):
                # `A() | B()` is isinstance(subj, (A, B))
                atom = ('call', ('name', 'isinstance'), (subj, ('tuple', tuple(('name', ast.unparse(sp.cls)) for sp in pat.patterns))), ())
                return [([(atom, True)], {})]
            out = []
            for sp in pat.patterns:
                out.extend(self._compile_pattern(sp, subj, env, ev))
            return out
        if isinstance(pat, (ast.MatchValue, ast.MatchSingleton)):
            if isinstance(pat, ast.MatchSingleton) or (isinstance(pat.value, ast.Constant) and isinstance(pat.value.value, bool)):
                cv = pat.value if isinstance(pat, ast.MatchSingleton) else pat.value.value
                if isinstance(cv, bool) and subj[0] in ('cmp', 'not', 'boolop', 'call'):
                    atom, pol = self.norm_test(subj)
                    return [([(atom, cv == pol)], {})]
                return [([(('cmp', '==', subj, ('const', cv)), True)], {})]
            return [([(('cmp', '==', subj, self.expr(pat.value, dict(env), ev)), True)], {})]
        if isinstance(pat, ast.MatchClass):
            cname = ast.unparse(pat.cls)
            cval = self.expr(pat.cls, dict(env), []) if isinstance(pat.cls, ast.Name) and pat.cls.id in env else ('name', cname)
            atom = ('call', ('name', 'isinstance'), (subj, cval), ())
            alts = [([(atom, True)], {})]
            names = self.match_fields(cname)
            subs = [(names[i] if names and i < len(names) else f'#{i}', sp) for i, sp in enumerate(pat.patterns)]
            subs += list(zip(pat.kwd_attrs, pat.kwd_patterns))
            for fld, sp in subs:
                part = self._compile_pattern(sp, ('attr', subj, fld), env, ev)
                alts = [(c1 + c2, dict(b1, **b2)) for c1, b1 in alts for c2, b2 in part]
            return alts
        if isinstance(pat, ast.MatchSequence) and not any(isinstance(sp, ast.MatchStar) for sp in pat.patterns):
            n = len(pat.patterns)
            if subj[0] in ('tuple', 'list') and len(subj[1]) == n and not any(x[0] == 'star' for x in subj[1]):
                elems, base = list(subj[1]), []
            elif subj[0] in ('tuple', 'list') and not any(x[0] == 'star' for x in subj[1]):
                return []                                   # a display of another length never matches
            else:
                elems = [('item', subj, i) for i in range(n)]
                ln = ('call', ('name', 'len'), (subj,), ())
                base = [(('cmp', '==', ln, ('const', n)), True)]
            alts = [(list(base), {})]
            for el, sp in zip(elems, pat.patterns):
                part = self._compile_pattern(sp, el, env, ev)
                alts = [(c1 + c2, dict(b1, **b2)) for c1, b1 in alts for c2, b2 in part]
            return alts
        raise Decline(f'match pattern {type(pat).__name__}')

    @staticmethod
    def _ways_to_fail(conds):
        """the ways a conjunction c1 & .. & ck is false: c1 false | c1 true & c2 false | .."""
        out = []
        for i, (c, b) in enumerate(conds):
            out.append(list(conds[:i]) + [(c, not b)])
        return out

    def _match(self, st: ast.Match, p: PPath) -> list[PPath]:
        env0 = dict(p.env)
        ev: list = []
        subj = self.expr(st.subject, env0, ev)
        out = []
        negs: list = [[]]                 # the ways in which no earlier case has matched (each a list of conditions)
        for case in st.cases:
            alts = self._compile_pattern(case.pattern, subj, env0, ev)
            next_negs = []
            for nc in negs:
                failed_guard = []
                for conds, binds in alts:
                    q0 = PPath(p.conds + nc + conds, [], ('fall',), {})
                    if not self._feasible(q0):
                        continue
                    env = dict(env0)
                    env.update(binds)
                    if case.guard is None:
                        out.extend(self._block(case.body, [self._fork(p, nc + conds, ev, env=env)]))
                        continue
                    for gconds, truth, genv, gev in self._test(case.guard, dict(env)):
                        if truth:
                            out.extend(self._block(case.body, [self._fork(p, nc + conds + gconds, ev + gev, env=genv)]))
                        else:
                            failed_guard.append(nc + conds + gconds)
                # the ways this case does not match under nc: every alternative fails (or matched with a failed guard)
                ways = [list(nc)]
                for conds, _b in alts:
                    if not conds:
                        ways = []                           # an irrefutable alternative: the case always matches
                        break
                    ways = [w + f for w in ways for f in self._ways_to_fail(conds)]
                    ways = [w for w in ways if self._feasible(PPath(p.conds + w, [], ('fall',), {}))]
                    if len(ways) > 256:
                        raise Decline('match statement with too many alternatives')
                next_negs.extend(ways)
                next_negs.extend(failed_guard)
            # drop duplicate / subsumed contexts
            seen = []
            for w in next_negs:
                key = sorted(map(repr, w))
                if key not in seen:
                    seen.append(key)
            uniq = []
            for w in next_negs:
                key = sorted(map(repr, w))
                if key in seen:
                    seen.remove(key)
                    uniq.append(w)
            negs = uniq
            if not negs:
                return out
        for nc in negs:
            q = self._fork(p, nc, ev, env=env0)
            if self._feasible(q):
                out.append(q)
        return out

    def _bind(self, t, v, env, ev, st):
        if isinstance(t, ast.Name):
            env[t.id] = v
        elif isinstance(t, (ast.Tuple, ast.List)):
            n = len(t.elts)
            star = [i for i, e in enumerate(t.elts) if isinstance(e, ast.Starred)]
            for i, e in enumerate(t.elts):
                if isinstance(e, ast.Starred):
                    self._bind(e.value, ('rest', v, i, n - i - 1), env, ev, st)
                elif star and i > star[0]:
                    self._bind(e, ('item', v, i - n), env, ev, st)        # counted from the end
                else:
                    if v[0] in ('tuple', 'list') and not star and len(v[1]) == n:
                        self._bind(e, v[1][i], env, ev, st)
                    else:
                        self._bind(e, ('item', v, i), env, ev, st)
        elif isinstance(t, ast.Attribute):
            base = self.expr(t.value, env, ev)
            ev.append(PEvent('setattr', (base, t.attr, v), node=st))
            env[('attr', base, t.attr)] = v
        elif isinstance(t, ast.Subscript):
            base = self.expr(t.value, env, ev)
            idx = self.expr(t.slice, env, ev)
            ev.append(PEvent('setitem', (base, idx, v), node=st))
        elif isinstance(t, ast.Starred):
            self._bind(t.value, v, env, ev, st)
        else:
            raise Decline(f'assignment target {type(t).__name__}')

    # -- tests --------------------------------------------------------------
    def _test(self, e, env):
        """-> list of (conds, truth, env, events): the short-circuit decomposition of a condition."""
        if isinstance(e, ast.BoolOp):
            is_and = isinstance(e.op, ast.And)
            results = []
            live = [([], env, [])]
            for i, sub in enumerate(e.values):
                nxt = []
                for conds, en, ev in live:
                    for c2, truth, e2, ev2 in self._test(sub, dict(en)):
                        if truth == is_and and i < len(e.values) - 1:
                            nxt.append((conds + c2, e2, ev + ev2))
                        else:
                            results.append((conds + c2, truth, e2, ev + ev2))
                live = nxt
            return results
        if isinstance(e, ast.UnaryOp) and isinstance(e.op, ast.Not):
            return [(c, not t, en, ev) for c, t, en, ev in self._test(e.operand, env)]
        if isinstance(e, ast.Constant) and isinstance(e.value, bool):
            return [([], e.value, env, [])]
        ev: list = []
        v = self.expr(e, env, ev)
        if v[0] == 'const' and isinstance(v[1], bool):
            return [([], v[1], env, ev)]
        atom, pol = self.norm_test(v)
        return [([(atom, pol)], True, env, ev), ([(atom, not pol)], False, dict(env), list(ev))]

    @staticmethod
    def norm_test(v):
        """canonical (atom, polarity): `a != b` is the negation of `a == b`, operands of == sorted."""
        if v[0] == 'not':
            a, p = PyEval.norm_test(v[1])
            return a, not p
        if v[0] == 'cmp':
            op, a, b = v[1], v[2], v[3]
            pol = True
            if op in ('!=', 'is not', 'not in'):
                op, pol = NEG[op], False
            if op == '==':
                a, b = sorted([a, b], key=repr)
            return ('cmp', op, a, b), pol
        return v, True

    # -- expressions ---------------------------------------------------------
    def expr(self, e, env, ev):
        if isinstance(e, ast.Name):
            if e.id in env:
                return env[e.id]
            return ('name', e.id)
        if isinstance(e, ast.Constant):
            return ('const', e.value)
        if isinstance(e, ast.Attribute):
            base = self.expr(e.value, env, ev)
            key = ('attr', base, e.attr)
            if key in env:
                return env[key]
            return key
        if isinstance(e, ast.Call):
            f = self.expr(e.func, env, ev)
            args = []
            for a in e.args:
                if isinstance(a, ast.Starred):
                    sv = self.expr(a.value, env, ev)
                    if sv[0] in ('tuple', 'list'):
                        args.extend(sv[1])
                    else:
                        args.append(('star', sv))
                else:
                    args.append(self.expr(a, env, ev))
            kw_l = []
            for k in e.keywords:
                kv = self.expr(k.value, env, ev)
                if k.arg is None and kv[0] == 'dict' and all(kk[0] == 'const' and isinstance(kk[1], str) and kk[1] != '**' for kk, _v in kv[1]):
                    kw_l.extend((kk[1], vv) for kk, vv in kv[1])      # f(**{'a': x, 'b': y}) is f(a=x, b=y)
                else:
                    kw_l.append((k.arg, kv))
            kw = tuple(kw_l)
            if f == ('name', 'dict') and len(args) == 1 and not kw and args[0][0] == 'call' and args[0][1] == ('name', 'zip') and len(args[0][2]) == 2 \
                    and all(a[0] in ('tuple', 'list') and not any(x[0] == 'star' for x in a[1]) for a in args[0][2]) \
                    and len(args[0][2][0][1]) == len(args[0][2][1][1]) and len(set(args[0][2][0][1])) == len(args[0][2][0][1]):
                # dict(zip(keys, values)) of two displays of equal length with distinct keys is the dict display pairing them
                return ('dict', tuple(zip(args[0][2][0][1], args[0][2][1][1])))
            if f[0] == 'lambda' and not kw and len(f[1]) == len(args) and not any(a[0] == 'star' for a in args):
                # applying a lambda value (passed as an argument, held in a local): its body with the parameters replaced.  The body was
                # evaluated in the environment of its definition, so captured variables already denote the right values.
                table = {('bound', n): a for n, a in zip(f[1], args)}

                def beta(x):
                    if not isinstance(x, tuple) or not x:
                        return x
                    if x in table:
                        return table[x]
                    return tuple(beta(y) if isinstance(y, tuple) else y for y in x)
                v = beta(f[2])
                for y in _subvalues(v):
                    if y[0] == 'call':
                        ev.append(PEvent('ecall', y, node=e))
                return v
            if f in (('name', 'all'), ('name', 'any')) and len(args) == 1 and not kw and args[0][0] == 'comp' and args[0][1] in ('gen', 'listcomp') \
                    and len(args[0][3]) == 1 and not args[0][3][0][2] and args[0][3][0][1][0] in ('tuple', 'list') \
                    and ',' not in args[0][3][0][0] and not any(x[0] == 'star' for x in args[0][3][0][1][1]):
                # all(f(x) for x in (a, b)) is f(a) and f(b) (same left-to-right short circuit); any(..) is the `or`
                var, elems = args[0][3][0][0].strip(), args[0][3][0][1][1]

                def inst(v, val):
                    if v == ('bound', var):
                        return val
                    return tuple(inst(y, val) if isinstance(y, tuple) else y for y in v) if isinstance(v, tuple) else v
                parts = tuple(inst(args[0][2], el) for el in elems)
                if not parts:
                    return ('const', f[1] == 'all')
                if len(parts) == 1:
                    return parts[0]
                return ('boolop', 'and' if f[1] == 'all' else 'or', parts)
            if f in (('name', 'list'), ('name', 'tuple')) and len(args) == 1 and not kw and args[0][0] in ('list', 'tuple') \
                    and not any(x[0] == 'star' for x in args[0][1]):
                return (f[1], args[0][1])             # list((a, b)) is [a, b]; tuple([a, b]) is (a, b)
            if f == ('name', 'getattr') and len(args) == 2 and not kw and args[1][0] == 'const' and isinstance(args[1][1], str) \
                    and args[1][1].isidentifier():
                # getattr(x, 'name') with a literal name is the attribute x.name
                key = ('attr', args[0], args[1][1])
                return env.get(key, key)
            if f == ('name', 'super') and len(args) == 2 and not kw and args[1] == ('param', 'self') and args[0][0] == 'name':
                args = []                               # super(C, self) inside C's own method is super()
            v = ('call', f, tuple(args), kw)
            dc = getattr(self, 'distinct_calls', None)
            if dc is not None and dc(v):
                # a call that yields something new every time (a read from a stream): the k-th evaluation of the same term on this
                # path is marked, so that two reads are two values
                k_ = sum(1 for x_ in list(getattr(self, '_path_events', [])) + list(ev) if x_.kind == 'ecall' and (x_.value == v or (x_.value[:3] == v[:3] and x_.value[3][:len(kw)] == kw
                                                                                       and x_.value[3][len(kw):][:1] and x_.value[3][len(kw)][0] == '#')))
                if k_:
                    v = ('call', f, tuple(args), tuple(kw) + (('#', ('const', k_)),))
            ev.append(PEvent('ecall', v, node=e))      # every call, in evaluation order
            return v
        if isinstance(e, ast.Compare):
            left = self.expr(e.left, env, ev)
            parts = []
            for op, c in zip(e.ops, e.comparators):
                right = self.expr(c, env, ev)
                parts.append(('cmp', CMP[type(op)], left, right))
                left = right
            return parts[0] if len(parts) == 1 else ('boolop', 'and', tuple(parts))
        if isinstance(e, ast.BoolOp):
            return ('boolop', 'and' if isinstance(e.op, ast.And) else 'or', tuple(self.expr(v, env, ev) for v in e.values))
        if isinstance(e, ast.UnaryOp):
            v = self.expr(e.operand, env, ev)
            if isinstance(e.op, ast.Not):
                return ('not', v)
            if isinstance(e.op, ast.USub) and v[0] == 'const' and isinstance(v[1], (int, float)):
                return ('const', -v[1])
            return ('unop', type(e.op).__name__, v)
        if isinstance(e, ast.BinOp):
            return ('binop', type(e.op).__name__, self.expr(e.left, env, ev), self.expr(e.right, env, ev))
        if isinstance(e, ast.Tuple):
            return ('tuple', self._elts(e.elts, env, ev))
        if isinstance(e, ast.List):
            return ('list', self._elts(e.elts, env, ev))
        if isinstance(e, ast.Set):
            return ('set', self._elts(e.elts, env, ev))
        if isinstance(e, ast.Dict):
            return ('dict', tuple((self.expr(k, env, ev) if k is not None else ('const', '**'), self.expr(v, env, ev))
                                  for k, v in zip(e.keys, e.values)))
        if isinstance(e, ast.Subscript):
            base = self.expr(e.value, env, ev)
            idx = self.expr(e.slice, env, ev)
            if base[0] in ('tuple', 'list') and idx[0] == 'const' and isinstance(idx[1], int) \
                    and -len(base[1]) <= idx[1] < len(base[1]):
                return base[1][idx[1]]
            return ('sub', base, idx)
        if isinstance(e, ast.Slice):
            return ('slice', self.expr(e.lower, env, ev) if e.lower else None,
                    self.expr(e.upper, env, ev) if e.upper else None,
                    self.expr(e.step, env, ev) if e.step else None)
        if isinstance(e, ast.IfExp):
            t_ = self.expr(e.test, env, ev)
            if isinstance(t_, tuple) and len(t_) == 2 and t_[0] == 'const' and isinstance(t_[1], bool):
                # a decided test: only the chosen operand is evaluated (as Python does)
                return self.expr(e.body if t_[1] else e.orelse, env, ev)
            return ('ifexp', t_, self.expr(e.body, env, ev), self.expr(e.orelse, env, ev))
        if isinstance(e, ast.NamedExpr):
            v = self.expr(e.value, env, ev)
            env[e.target.id] = v
            return v
        if isinstance(e, (ast.GeneratorExp, ast.ListComp)) and len(e.generators) == 1 and not e.generators[0].ifs \
                and isinstance(e.generators[0].target, ast.Name):
            # a comprehension over a short display of CONSTANTS (a table of names) is the display of its instances: the element
            # expression is evaluated once per constant, its calls happen in that order
            it0 = self.expr(e.generators[0].iter, dict(env), [])
            if it0[0] in ('tuple', 'list') and 1 <= len(it0[1]) <= 8 and all(x[0] == 'const' for x in it0[1]):
                self.expr(e.generators[0].iter, env, ev)
                outs = []
                for c_ in it0[1]:
                    benv = dict(env)
                    benv[e.generators[0].target.id] = c_
                    outs.append(self.expr(e.elt, benv, ev))
                return ('list', tuple(outs))
        if isinstance(e, (ast.GeneratorExp, ast.ListComp, ast.SetComp, ast.DictComp)):
            benv = dict(env)
            gens = []
            inner: list = []       # calls in the element expression happen once per element, not once: keep them out of the event list
            for i, g in enumerate(e.generators):
                it = self.expr(g.iter, benv, ev if i == 0 else inner)
                for n in ast.walk(g.target):
                    if isinstance(n, ast.Name):
                        benv[n.id] = ('bound', n.id)
                gens.append((ast.unparse(g.target), it, tuple(self.expr(c, benv, inner) for c in g.ifs)))
            if isinstance(e, ast.DictComp):
                elt = ('pair', self.expr(e.key, benv, inner), self.expr(e.value, benv, inner))
            else:
                elt = self.expr(e.elt, benv, inner)
            kind = {ast.GeneratorExp: 'gen', ast.ListComp: 'listcomp', ast.SetComp: 'setcomp', ast.DictComp: 'dictcomp'}[type(e)]
            return ('comp', kind, elt, tuple(gens))
        if isinstance(e, ast.Lambda):
            benv = dict(env)
            names = [a.arg for a in e.args.posonlyargs + e.args.args]
            for n in names:
                benv[n] = ('bound', n)
            return ('lambda', tuple(names), self.expr(e.body, benv, ev))
        if isinstance(e, ast.JoinedStr):
            parts = []
            for v in e.values:
                if isinstance(v, ast.Constant):
                    parts.append(('const', v.value))
                elif isinstance(v, ast.FormattedValue):
                    parts.append(('fmt', self.expr(v.value, env, ev)))
            return ('fstr', tuple(parts))
        if isinstance(e, ast.Starred):
            return ('star', self.expr(e.value, env, ev))
        if isinstance(e, ast.Await):
            return ('await', self.expr(e.value, env, ev))
        if isinstance(e, ast.FormattedValue):
            return ('fmt', self.expr(e.value, env, ev))
        raise Decline(f'expression {type(e).__name__} at line {getattr(e, "lineno", 0)}')

    def _elts(self, elts, env, ev):
        out = []
        for x in elts:
            if isinstance(x, ast.Starred):
                sv = self.expr(x.value, env, ev)
                if sv[0] in ('tuple', 'list'):
                    out.extend(sv[1])
                else:
                    out.append(('star', sv))
            else:
                out.append(self.expr(x, env, ev))
        return tuple(out)


# ----------------------------------------------------------------------------

def _subvalues(v):
    """all tuple sub-values of a value, innermost first (evaluation order of nested calls)"""
    if isinstance(v, tuple) and v:
        for x in v:
            if isinstance(x, tuple):
                yield from _subvalues(x)
        if isinstance(v[0], str):
            yield v


class _Subst(ast.NodeTransformer):
    def __init__(self, name, repl):
        self.name, self.repl = name, repl

    def visit_Name(self, n):
        if n.id == self.name and isinstance(n.ctx, ast.Load):
            return ast.copy_location(copy.deepcopy(self.repl), n)
        return n


def unroll_constant_loops(fn: ast.FunctionDef, consts=None) -> ast.FunctionDef:
    """`for c in (A, B, C): body` over a literal tuple / list of names becomes body[c:=A]; body[c:=B]; body[c:=C] (a copy of the
    function is returned; the repository's tree is left alone).  Also `for a, b in ((A, 'x'), (B, 'y')): body` (a table of rows), and
    an iterable that `consts(expr)` resolves to such a literal (a class-level or module-level table).  Only loops without else /
    break / continue whose variables are not assigned in the body are unrolled; `return` in the body keeps its meaning."""
    def atom(e):
        return isinstance(e, (ast.Name, ast.Attribute, ast.Constant))

    class U(ast.NodeTransformer):
        def visit_For(self, n):
            self.generic_visit(n)
            it = n.iter
            if not isinstance(it, (ast.Tuple, ast.List)) and consts is not None:
                it = consts(it)
            if n.orelse or not isinstance(it, (ast.Tuple, ast.List)) or not it.elts:
                return n
            if isinstance(n.target, ast.Name):
                names = [n.target.id]
                if not all(atom(e) for e in it.elts):
                    return n
                rows = [[e] for e in it.elts]
            elif isinstance(n.target, (ast.Tuple, ast.List)) and all(isinstance(t, ast.Name) for t in n.target.elts):
                names = [t.id for t in n.target.elts]
                if not all(isinstance(e, (ast.Tuple, ast.List)) and len(e.elts) == len(names) and all(atom(x) for x in e.elts) for e in it.elts):
                    return n
                rows = [list(e.elts) for e in it.elts]
            else:
                return n
            for st in n.body:
                for m in ast.walk(st):
                    if isinstance(m, (ast.Break, ast.Continue)):
                        return n
                    if isinstance(m, ast.Name) and m.id in names and isinstance(m.ctx, (ast.Store, ast.Del)):
                        return n
            out = []
            for row in rows:
                for st in n.body:
                    st2 = copy.deepcopy(st)
                    for nm, e in zip(names, row):
                        st2 = _Subst(nm, e).visit(st2)
                    out.append(st2)
            return out
    g = U().visit(copy.deepcopy(fn))
    ast.fix_missing_locations(g)
    return g


def class_table_resolver(ci, module_tree=None):
    """consts() for unroll_constant_loops: `self.X` / `cls.X` / `<Class>.X` where X is assigned once in the class body to a literal
    tuple / list, and bare names assigned once at module level"""
    def lit(v):
        return v if isinstance(v, (ast.Tuple, ast.List)) else None

    def consts(e):
        if isinstance(e, ast.Attribute) and isinstance(e.value, ast.Name) and e.value.id in ('self', 'cls', ci.name):
            defs = [n for n in ci.node.body if isinstance(n, (ast.Assign, ast.AnnAssign)) and n.value is not None
                    and isinstance(n.targets[0] if isinstance(n, ast.Assign) else n.target, ast.Name)
                    and (n.targets[0] if isinstance(n, ast.Assign) else n.target).id == e.attr]
            return lit(defs[0].value) if len(defs) == 1 else None
        if isinstance(e, ast.Name) and module_tree is not None:
            defs = [n for n in module_tree.body if isinstance(n, (ast.Assign, ast.AnnAssign)) and n.value is not None
                    and isinstance(n.targets[0] if isinstance(n, ast.Assign) else n.target, ast.Name)
                    and (n.targets[0] if isinstance(n, ast.Assign) else n.target).id == e.id]
            return lit(defs[0].value) if len(defs) == 1 else None
        return None
    return consts


def show(v) -> str:
    if not isinstance(v, tuple) or not v:
        return repr(v)
    k = v[0]
    if k == 'param' or k == 'name' or k == 'bound':
        return v[1]
    if k == 'const':
        return repr(v[1])
    if k == 'attr':
        return f'{show(v[1])}.{v[2]}'
    if k == 'call':
        a = [show(x) for x in v[2]] + [f'{n}={show(x)}' for n, x in v[3]]
        return f'{show(v[1])}({", ".join(a)})'
    if k == 'cmp':
        return f'({show(v[2])} {v[1]} {show(v[3])})'
    if k == 'not':
        return f'not {show(v[1])}'
    if k == 'boolop':
        return '(' + f' {v[1]} '.join(show(x) for x in v[2]) + ')'
    if k in ('tuple', 'list', 'set'):
        return {'tuple': '(', 'list': '[', 'set': '{'}[k] + ', '.join(show(x) for x in v[1]) + {'tuple': ')', 'list': ']', 'set': '}'}[k]
    if k == 'item':
        return f'{show(v[1])}[{v[2]}]'
    if k == 'sub':
        return f'{show(v[1])}[{show(v[2])}]'
    if k == 'rest':
        return f'{show(v[1])}[{v[2]}:-{v[3]}]' if v[3] else f'{show(v[1])}[{v[2]}:]'
    if k == 'slice':
        return ':'.join('' if x is None else show(x) for x in v[1:3])
    if k == 'comp':
        return f'{v[1]}<{show(v[2])} for {"; ".join(g[0] + " in " + show(g[1]) for g in v[3])}>'
    if k == 'elem':
        return f'elem{chr(39) * (v[2] if len(v) > 2 else 0)}({show(v[1])})'
    if k == 'component':
        return f'{show(v[1])}.{v[2]}.{v[3]}'
    if k == 'binop':
        return f'({show(v[2])} {v[1]} {show(v[3])})'
    if k == 'star':
        return '*' + show(v[1])
    if k == 'fstr':
        return 'f"' + ''.join(x[1] if x[0] == 'const' else '{' + show(x[1]) + '}' for x in v[1]) + '"'
    if k == 'ifexp':
        return f'({show(v[2])} if {show(v[1])} else {show(v[3])})'
    if k == 'dict':
        return '{' + ', '.join(f'{show(a)}: {show(b)}' for a, b in v[1]) + '}'
    if k == 'lambda':
        return f'lambda {",".join(v[1])}: {show(v[2])}'
    return '<' + ' '.join(show(x) if isinstance(x, tuple) else str(x) for x in v) + '>'
