"""Canonical pattern terms on the Python side: constructor calls and notation applications, read from
pyeval values, expanded to the same ('P', Ctor, fields...) vocabulary the Rust side uses.

Notations are read from the `X = Notation(label, arity, definition, format)` assignments of pattern.py and
proofs/*.py (so a change of a definition changes the meaning of everything written with it).
"""
from __future__ import annotations

import ast

from .pyeval import PyEval, Decline, show
from .pyfacts import PyRepo
from .report import AnalysisError
from ..spec.axioms import EMPTY

CTORS = {'EVar': ('name',), 'SVar': ('name',), 'Symbol': ('name',), 'Implies': ('left', 'right'), 'App': ('left', 'right'),
         'Exists': ('var', 'subpattern'), 'Mu': ('var', 'subpattern'),
         'MetaVar': ('name', 'e_fresh', 's_fresh', 'positive', 'negative', 'app_ctx_holes'),
         'ESubst': ('pattern', 'var', 'plug'), 'SSubst': ('pattern', 'var', 'plug')}


def MV(i):
    return ('P', 'MetaVar', ('int', i), EMPTY, EMPTY, EMPTY, EMPTY, EMPTY)


class Notations:
    """label/variable name -> (arity, definition term with metavariables)"""

    def __init__(self, py: PyRepo):
        self.py = py
        self.defs: dict[str, tuple[int, object, str]] = {}      # python name -> (arity, definition, module)
        self.order: list[str] = []
        self.fields_checked = False
        self._load()

    def check_ctor_fields(self):
        """the positional order of constructor arguments is the dataclass field order of pattern.py"""
        for c, want in CTORS.items():
            ci = self.py.cls(c, 'pattern')
            got = tuple(n for n, _t in ci.fields)
            if got != want:
                raise AnalysisError(f'pattern.{c} declares fields {got}; the term reader assumes {want}')

    def _load(self):
        self.check_ctor_fields()
        ev = PyEval()
        for mname in ['pattern'] + sorted(m for m in self.py.modules if m.startswith('proofs.')):
            mi = self.py.modules.get(mname)
            if mi is None:
                continue
            env: dict = {}
            for node in mi.assign_nodes:
                value = node.value
                tgt = node.targets[0] if isinstance(node, ast.Assign) else node.target
                if not isinstance(tgt, ast.Name):
                    continue
                try:
                    v = ev.expr(value, dict(env), [])
                except Decline:
                    continue
                if not (v[0] == 'call' and v[1] == ('name', 'Notation')):
                    env[tgt.id] = v
                if v[0] == 'call' and v[1] == ('name', 'Notation') and len(v[2]) >= 3:
                    ar = v[2][1]
                    if ar[0] != 'const':
                        continue
                    try:
                        d = self.term(v[2][2], mname)
                    except AnalysisError:
                        continue
                    self.defs[tgt.id] = (ar[1], d, mname)
                    self.order.append(tgt.id)

    # ------------------------------------------------------------------
    def is_notation(self, name: str) -> bool:
        return name in self.defs

    def apply(self, name: str, args: list):
        ar, d, _m = self.defs[name]
        if len(args) != ar:
            raise AnalysisError(f'notation {name} applied to {len(args)} arguments, arity {ar}')
        return subst_mv(d, {i: a for i, a in enumerate(args)})

    def term(self, v, module: str = 'pattern', env=None):
        """pyeval value -> canonical term (fully expanded)"""
        env = env or {}
        k = v[0]
        if v in env:
            return env[v]
        if k == 'name':
            if v[1] in ('phi0', 'phi1', 'phi2'):
                return MV(int(v[1][3]))
            # a module-level constant (`PROP1_SCHEMA = Implies(..)`), defined in `module`, imported into it, or - failing that -
            # defined under that name in exactly one module: its defining expression
            hit = self._module_constant(v[1], module)
            if hit is not None:
                val, home = hit
                seen = env.get('#resolving', ())
                if v[1] not in seen:
                    env2 = dict(env)
                    env2['#resolving'] = seen + (v[1],)
                    return self.term(val, home, env2)
            raise AnalysisError(f'unknown pattern name {v[1]}')
        if k == 'const' and isinstance(v[1], (int, str)):
            return ('int', v[1]) if isinstance(v[1], int) else ('str', v[1])
        if k == 'call' and v[1][0] == 'name':
            fn = v[1][1]
            if fn in CTORS:
                fields = CTORS[fn]
                vals = {}
                for i, a in enumerate(v[2]):
                    vals[fields[i]] = a
                for kw, a in v[3]:
                    vals[kw] = a
                out = []
                for f in fields:
                    if f not in vals:
                        if fn == 'MetaVar':
                            out.append(EMPTY)
                            continue
                        raise AnalysisError(f'{fn}(...) without field {f}')
                    a = vals[f]
                    if f in ('name', 'var') and fn not in ('ESubst', 'SSubst'):
                        out.append(self.scalar(a, env))
                    elif f == 'var':
                        out.append(self.var_of(a, env))
                    elif fn == 'MetaVar' and f != 'name':
                        out.append(self.lst(a, env))
                    else:
                        out.append(self.term(a, module, env))
                return ('P', fn) + tuple(out)
            if fn in self.defs:
                return self.apply(fn, [self.term(a, module, env) for a in v[2]])
            if fn in ('imp',):
                return ('P', 'Implies', self.term(v[2][0], module, env), self.term(v[2][1], module, env))
        raise AnalysisError(f'not a pattern term: {show(v)}')

    def _module_constant(self, name: str, module: str):
        """(pyeval value of the defining expression, module it is defined in) of a module-level `NAME = <expr>` bound once"""
        def defined_in(mname):
            mi = self.py.modules.get(mname)
            if mi is None:
                return None
            nodes = [n for n in mi.assign_nodes if isinstance(n.targets[0] if isinstance(n, ast.Assign) else n.target, ast.Name)
                     and (n.targets[0] if isinstance(n, ast.Assign) else n.target).id == name and n.value is not None]
            return nodes[0].value if len(nodes) == 1 else None
        home = None
        mi = self.py.modules.get(module)
        expr = defined_in(module)
        if expr is not None:
            home = module
        elif mi is not None and name in mi.imports:
            src_mod, orig = mi.imports[name]
            cands = [m for m in self.py.modules if m == src_mod or src_mod.endswith('.' + m) or m.endswith('.' + src_mod)]
            for m in cands:
                if orig == name and defined_in(m) is not None:
                    expr, home = defined_in(m), m
                    break
        if expr is None:
            homes = [m for m in self.py.modules if defined_in(m) is not None]
            if len(homes) == 1:
                expr, home = defined_in(homes[0]), homes[0]
        if expr is None:
            return None
        try:
            return PyEval().expr(expr, {}, []), home
        except Decline:
            return None

    def scalar(self, a, env):
        if a in env:
            return env[a]
        if a[0] == 'const':
            return ('int', a[1]) if isinstance(a[1], int) else ('str', a[1])
        if a[0] == 'attr' and a[2] == 'name':
            inner = a[1]
            if inner[0] == 'call' and inner[1][0] == 'name' and inner[1][1] in ('EVar', 'SVar') and len(inner[2]) == 1:
                return self.scalar(inner[2][0], env)
            if inner in env:
                e = env[inner]
                if e[0] == 'P' and e[1] in ('EVar', 'SVar'):
                    return e[2]
            return ('attr', self.scalar(inner, env) if inner in env else inner, 'name')
        return a

    def var_of(self, a, env):
        """ESubst/SSubst `var` is an EVar/SVar object; canonical form is its id"""
        if a[0] == 'call' and a[1][0] == 'name' and a[1][1] in ('EVar', 'SVar') and len(a[2]) == 1:
            return self.scalar(a[2][0], env)
        if a in env:
            e = env[a]
            if e[0] == 'P' and e[1] in ('EVar', 'SVar'):
                return e[2]
            return e
        return ('attr', a, 'name')

    def lst(self, a, env):
        if a in env:
            return env[a]
        if a[0] == 'tuple' and not a[1]:
            return EMPTY
        return a


def subst_mv(t, d: dict):
    if isinstance(t, tuple) and t and t[0] == 'P':
        if t[1] == 'MetaVar' and t[2][0] == 'int' and t[2][1] in d:
            return d[t[2][1]]
        return t[:2] + tuple(subst_mv(x, d) for x in t[2:])
    return t


def tshow(t) -> str:
    if not isinstance(t, tuple) or not t:
        return str(t)
    if t[0] == 'P':
        if t[1] == 'MetaVar' and all(x == EMPTY for x in t[3:]):
            return f'phi{tshow(t[2])}'
        return f'{t[1]}({", ".join(tshow(x) for x in t[2:])})'
    if t[0] in ('int', 'str'):
        return str(t[1])
    if t[0] == 'empty':
        return '[]'
    if t[0] == 'byte':
        return f'byte#{t[1]}'
    if t[0] == 'payload':
        return f'pop#{t[1]}.{t[2]}'
    if t[0] == 'fld':
        return f'{tshow(t[1])}.{t[2]}.{t[3]}'
    if t[0] == 'list':
        return f'list#{t[1]}'
    return show(t) if t[0] in ('param', 'attr', 'call', 'name', 'const') else str(t)
