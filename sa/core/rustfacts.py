"""Facts about the Rust checker extracted from MIR paths: judgement arms as
decision functions over canonical atoms, helper summaries, opcode arms."""
from __future__ import annotations

import re
from dataclasses import dataclass, field

from . import mir, mireval
from .decide import DF
from .report import AnalysisError, repo_path
from ..spec.judgements import ROLES

SELF = ('param', 'self')


class Rust:
    """Lazy container: MIR functions, enum tables, evaluator, path cache."""

    _inst: dict[str, 'Rust'] = {}

    def __init__(self, src: str | None = None):
        self.src = src or repo_path('rust', 'src', 'lib.rs')
        self.fns = mir.load(self.src)
        self.enums = mir.load_enums(self.src)
        self.ev = mireval.Evaluator(self.fns, self.enums)
        self._paths: dict[str, list[mireval.Path]] = {}

    @classmethod
    def get(cls, src: str | None = None) -> 'Rust':
        key = src or repo_path('rust', 'src', 'lib.rs')
        if key not in cls._inst:
            cls._inst[key] = Rust(key)
        return cls._inst[key]

    def fn(self, short: str) -> mir.Fn:
        return mir.get_fn(self.fns, short)

    def paths(self, short: str) -> list[mireval.Path]:
        if short not in self._paths:
            self._paths[short] = self.ev.paths(self.fn(short))
        return self._paths[short]

    def line_of(self, short: str) -> str:
        """file:line of a function definition, found syntactically (for reports only)."""
        name = short.split('::')[-1]
        try:
            with open(self.src) as f:
                for i, line in enumerate(f, 1):
                    if re.search(rf'\bfn {re.escape(name)}\b', line):
                        return f'rust/src/lib.rs:{i}'
        except OSError:
            pass
        return 'rust/src/lib.rs'


# ----------------------------------------------------------------------------
# canonical atoms for `impl Pattern` methods (self, query variable)

def _role(variant: str, k) -> str:
    fname = mir.field_name('Pattern', variant, k) if isinstance(k, int) else k
    try:
        return ROLES[variant][fname]
    except KeyError:
        raise AnalysisError(f'Pattern::{variant} has a field `{fname}` unknown to the role table')


def canon_operand(v, variant: str, qparam: str | None):
    """self field / query parameter -> role name"""
    if v == ('param', qparam):
        return 'x'
    if v[0] == 'field' and v[1] == SELF and v[2] == variant:
        return _role(variant, v[3])
    if v == SELF:
        return 'self'
    if v[0] == 'agg' and v[1] in ('Pattern::EVar', 'Pattern::SVar') and len(v[2]) == 1:
        inner = canon_operand(v[2][0][1], variant, qparam)
        return f'{v[1].split("::")[1].lower()}({inner})'
    raise AnalysisError(f'operand outside the analysed subset in {variant} arm: {mireval.show(v)}')


JUDGEMENTS = ('e_fresh', 's_fresh', 'positive', 'negative')
_ALIASES: dict = {}
_ACTIVE_ALIASES: dict = {}


def judgement_aliases(r: 'Rust') -> dict:
    """{(method, constant): judgement}: a judgement that is a one-line wrapper `self.m(x, CONST)` around a parametrised method
    (`positive(x) = polarity(x, true)`) makes `m(child, x, CONST)` another spelling of that judgement on the child"""
    if id(r) in _ALIASES:
        return _ALIASES[id(r)]
    out = {}
    for j in JUDGEMENTS:
        try:
            fn = r.fn(f'Pattern::{j}')
        except AnalysisError:
            continue
        calls = []
        for b in fn.blocks.values():
            if b.cleanup:
                continue
            t = mir.parse_term(b.term)
            if t.kind == 'call':
                calls.append(t)
        if len(calls) == 1 and mireval.cname(calls[0].callee).startswith('Pattern::') and len(calls[0].args) == 3 \
                and calls[0].args[2].strip() in ('const true', 'const false'):
            m = mireval.cname(calls[0].callee)
            if m.split('::')[1] not in JUDGEMENTS:
                out[(m, calls[0].args[2].strip() == 'const true')] = j
    _ALIASES[id(r)] = out
    return out


def _fold_bool(v):
    if isinstance(v, tuple) and v:
        if v[0] == 'bool':
            return bool(v[1])
        if v[0] == 'op' and v[1] == 'Not' and len(v[2]) == 1:
            x = _fold_bool(v[2][0])
            return None if x is None else not x
    return None


def canon_atom(atom, variant: str, qparam: str | None, closures=None):
    k = atom[0]
    if k == 'call' and len(atom) >= 3 and len(atom[2]) == 3 and _fold_bool(atom[2][2]) is not None:
        for (m, const), j in _ACTIVE_ALIASES.items():
            if atom[1] == m and const == _fold_bool(atom[2][2]):
                return ('J', j, canon_operand(atom[2][0], variant, qparam), canon_operand(atom[2][1], variant, qparam))
    if k == 'call' and atom[1].startswith('Pattern::') and atom[1].split('::')[1] in (
            'e_fresh', 's_fresh', 'positive', 'negative'):
        child = canon_operand(atom[2][0], variant, qparam)
        var = canon_operand(atom[2][1], variant, qparam)
        return ('J', atom[1].split('::')[1], child, var)
    if k == 'call' and atom[1] == 'Pattern::is_redundant_subst' and atom[2][0] == SELF:
        return ('redundant',)
    if k == 'eq':
        a = canon_operand(atom[1], variant, qparam)
        b = canon_operand(atom[2], variant, qparam)
        a, b = sorted([a, b])
        if '(' in a or '(' in b or a in 'PQLRS' or b in 'PQLRS':
            a, b = sorted([a, b], key=lambda s: (0 if '(' in s else 1, s))
            return ('eqpat', a, b)
        return ('eq', a, b)
    if k == 'call' and atom[1] in ('slice::contains', 'Vec::contains'):
        lst = canon_operand(atom[2][0], variant, qparam)
        x = canon_operand(atom[2][1], variant, qparam)
        return ('in', x, lst)
    if k == 'call' and atom[1] == 'Iterator::any' and closures is not None:
        # any(|h| L.contains(h)) over list M  ->  ('any_in', M, L)
        it, clo = atom[2]
        if it[0] == 'iter' and clo[0] == 'closure':
            m = canon_operand(it[1], variant, qparam)
            body = closures(clo)
            if body is not None and body[0] == 'call' and body[1] in ('slice::contains', 'Vec::contains') \
                    and body[2][1] in (('param', 'arg1'),):
                l_ = canon_operand(body[2][0], variant, qparam)
                return ('any_in', m, l_)
    if k == 'call' and atom[1] == 'Iterator::all' and closures is not None:
        # all(|h| !L.contains(h)) over list M  ==  not any(|h| L.contains(h))  ->  ('neg', ('any_in', M, L))
        it, clo = atom[2]
        if it[0] == 'iter' and clo[0] == 'closure':
            m = canon_operand(it[1], variant, qparam)
            body = closures(clo)
            if body is not None and body[0] == 'op' and body[1] == 'Not' and len(body[2]) == 1:
                inner = body[2][0]
                if inner[0] == 'call' and inner[1] in ('slice::contains', 'Vec::contains') and inner[2][1] in (('param', 'arg1'),):
                    return ('neg', ('any_in', m, canon_operand(inner[2][0], variant, qparam)))
    if k == 'variant' and atom[2] == 'Pattern':
        return ('variant', canon_operand(atom[1], variant, qparam))
    raise AnalysisError(f'atom outside the analysed subset in {variant} arm: {mireval.show(atom)}')


def canon_lit(atom, pol, variant: str, qparam: str | None, closures=None):
    """(canonical atom, polarity); an atom that is the negation of a canonical one flips the polarity"""
    c = canon_atom(atom, variant, qparam, closures)
    if c[0] == 'neg':
        return c[1], (not pol if isinstance(pol, bool) else pol)
    return c, pol


def arms_of(r: Rust, short: str) -> dict[str, list[mireval.Path]]:
    """Group the paths of an `impl Pattern` method (or a fn matching on its first parameter) by the variant of self."""
    fn = r.fn(short)
    first = ('param', fn.debug_of.get(fn.params[0][0], f'_{fn.params[0][0]}'))
    out: dict[str, list[mireval.Path]] = {}
    for p in r.paths(short):
        if not p.conds:
            raise AnalysisError(f'{short}: path without a dispatch on the first parameter')
        a, o = p.conds[0]
        if not (a[0] == 'variant' and a[1] == first and a[2] == 'Pattern'):
            raise AnalysisError(f'{short}: first decision is not the match on `{first[1]}`: {mireval.show(a)}')
        if isinstance(o, tuple):       # the otherwise arm
            key = '_'
        else:
            key = o
        out.setdefault(key, []).append(p)
    return out


def judgement_df(r: Rust, short: str, variant: str, paths: list[mireval.Path]) -> DF:
    _ACTIVE_ALIASES.clear()
    _ACTIVE_ALIASES.update(judgement_aliases(r))
    fn = r.fn(short)
    q = fn.debug_of.get(fn.params[1][0]) if len(fn.params) > 1 else None
    outcomes = []
    clos = lambda clo: r.ev.closure_value(r.ev._closure_by_loc[clo[1]], clo)  # noqa: E731
    for p in paths:
        conds = tuple(canon_lit(a, o, variant, q, clos) for a, o in p.conds[1:])
        if p.end == 'return':
            rv = p.ret
            if rv[0] == 'bool':
                res = ('const', rv[1])
            else:
                atom, pol = r.ev.bool_atom(rv)
                if atom[0] == 'const':
                    res = ('const', atom[1] == pol)
                else:
                    res = ('lit',) + canon_lit(atom, pol, variant, q, clos)
        elif p.end == 'diverge':
            res = ('raise', p.why)
        else:
            raise AnalysisError(f'{short}/{variant}: loop inside a judgement arm')
        outcomes.append((conds, res))
    return DF(outcomes, f'{short}/{variant}')
