"""Rust apply_esubst / apply_ssubst / instantiate_internal arms in the vocabulary of spec/substitution.py."""
from __future__ import annotations

from . import mir, mireval
from .report import AnalysisError
from .rustfacts import Rust, arms_of, _role
from ..spec import substitution as SS
from ..spec.judgements import VARIANTS


def _params(r: Rust, short: str):
    fn = r.fn(short)
    return [('param', fn.debug_of.get(n, f'_{n}')) for n, _t in fn.params]


class SubstCanon:
    """canonicaliser for apply_esubst / apply_ssubst (params: pattern, var, plug)"""

    def __init__(self, r: Rust, short: str, variant: str):
        self.r, self.short, self.variant = r, short, variant
        self.p_self, self.p_var, self.p_plug = _params(r, short)

    def fld(self, v):
        if v[0] == 'field' and v[1] == self.p_self and v[2] == self.variant:
            return _role(self.variant, v[3])
        return None

    def term(self, v):
        if v == self.p_self:
            return SS.SELF
        if v == self.p_plug:
            return SS.PLUG
        if v == self.p_var:
            return SS.VAR
        role = self.fld(v)
        if role is not None:
            return SS.F(role)
        if v[0] == 'agg' and v[1].startswith('Pattern::'):
            ctor = v[1].split('::')[1]
            order = mir.ENUM_FIELDS['Pattern'][ctor]
            given = {str(n): self.term(x) for n, x in v[2]}
            if set(given) != set(order):
                raise AnalysisError(f'{self.short}/{self.variant}: constructor {ctor} built with fields {sorted(given)}')
            return ('C', ctor) + tuple(given[f] for f in order)
        if v[0] == 'call' and v[1] == self.short and len(v[2]) == 3:
            tgt, var, plug = v[2]
            role = self.fld(tgt)
            if role is not None and var == self.p_var and plug == self.p_plug:
                return SS.REC(role)
            kind = 'esubst' if self.short == 'apply_esubst' else 'ssubst'
            return (kind, self.term(tgt), self.term(var), self.term(plug))
        raise AnalysisError(f'{self.short}/{self.variant}: result outside the analysed subset: {mireval.show(v)}')

    def atom(self, a):
        if a[0] == 'eq':
            x, y = a[1], a[2]
            roles = []
            for z in (x, y):
                if z == self.p_var:
                    roles.append('var')
                else:
                    rl = self.fld(z)
                    if rl is None:
                        raise AnalysisError(f'{self.short}/{self.variant}: comparison outside the subset: {mireval.show(a)}')
                    roles.append(rl)
            roles.sort()
            return ('eq', roles[0], roles[1])
        if a[0] == 'call' and a[1] in ('Pattern::e_fresh', 'Pattern::s_fresh'):
            recv, var = a[2]
            if recv == self.p_plug and self.fld(var) == 'v':
                return ('fresh', 'e' if a[1].endswith('e_fresh') else 's', 'plug', 'v')
        # freshness of a child for the substituted variable: the recursive substitution is the identity on that child
        if a[0] == 'call' and a[1] in ('Pattern::e_fresh', 'Pattern::s_fresh') and len(a[2]) == 2:
            recv, var = a[2]
            rl = self.fld(recv)
            if rl is not None and var == self.p_var:
                return ('Jvar', 'e' if a[1].endswith('e_fresh') else 's', rl)
        # `<constraint list of self>.contains(&var)`: membership of the substituted variable in a constraint list of the metavariable
        if a[0] == 'call' and a[1] in ('slice::contains', 'Vec::contains', '<[T]>::contains') and len(a[2]) == 2:
            lst, var = a[2]
            rl = self.fld(lst)
            if rl is not None and var == self.p_var:
                return ('in', 'var', rl)
        raise AnalysisError(f'{self.short}/{self.variant}: condition outside the analysed subset: {mireval.show(a)}')


def subst_outcomes(r: Rust, short: str) -> dict[str, list]:
    """-> {Variant: [(conds:set, outcome)]}; the catch-all arm is replicated for the variants it covers."""
    arms = arms_of(r, short)
    out = {}
    for v in VARIANTS:
        paths = arms.get(v, arms.get('_'))
        if paths is None:
            raise AnalysisError(f'{short}: no arm for {v}')
        cz = SubstCanon(r, short, v)
        oc = []
        for p in paths:
            if p.end == 'diverge' and p.why == 'unreachable':
                continue
            conds = {(cz.atom(a), o) for a, o in p.conds[1:]}
            if p.end == 'return':
                oc.append((conds, cz.term(p.ret)))
            elif p.end == 'diverge':
                oc.append((conds, 'raise'))
            else:
                raise AnalysisError(f'{short}/{v}: loop in a substitution arm')
        out[v] = oc
    return out


def _expand_self(t, variant):
    """SELF -> its constructor form, so that `self` and a field-by-field rebuild compare equal"""
    if t == SS.SELF and variant in SS.FORM:
        return ('C', variant) + tuple(SS.F(r) for r in SS.FORM[variant])
    if isinstance(t, tuple) and t and t[0] in ('C', 'esubst', 'ssubst'):
        # do not expand a nested `self` (e.g. ESubst(self, var, plug)): only the top level denotes the result
        return t
    return t


def compare(variant: str, got: list, spec: list, unchanged_roles=(), refuse_ok: bool = False, defer_ok: bool = False):
    """-> None or a message.  Both are lists of (conds, outcome); compared on every valuation of the atoms."""
    import itertools
    atoms = []
    for conds, _o in got + spec:
        for a, _p in conds:
            if a not in atoms:
                atoms.append(a)
    if len(atoms) > 10:
        raise AnalysisError(f'{variant}: too many atoms')
    for bits in itertools.product([False, True], repeat=len(atoms)):
        val = dict(zip(atoms, bits))

        def pick(lst, what):
            hits = [o for conds, o in lst if all(val[a] == p for a, p in conds)]
            if len(hits) != 1:
                if len(set(map(repr, hits))) == 1:
                    return hits[0]
                raise AnalysisError(f'{variant}: {what} outcomes do not partition the valuations at {val}')
            return hits[0]

        g, s = pick(got, 'extracted'), pick(spec, 'specified')

        def nrm(t):
            if t == 'raise':
                return t
            t = _expand_self(t, variant)
            t = _unchanged(t, val)
            t = _fresh_identity(t, val)
            # identity shortcut of a pending substitution: with nothing to instantiate, apply_subst(P, v, Q) on a
            # well-formed head (MetaVar | ESubst | SSubst; C01 S2) wraps again, i.e. rebuilds this very constructor
            if variant in ('ESubst', 'SSubst') and t == (variant.lower(), SS.F('P'), SS.F('v'), SS.F('Q')):
                return ('C', variant, SS.F('P'), SS.F('v'), SS.F('Q'))
            return t

        if refuse_ok and g == 'raise':
            continue            # refusing where the table substitutes rejects more proofs: never unsound
        if defer_ok and isinstance(g, tuple) and g and g[0] == 'C' and g[1] in ('ESubst', 'SSubst') and g[2] == ('self',):
            continue            # keeping the substitution pending where the table drops it is another sound representation
        if nrm(g) != nrm(s):
            return f'at {_val(val)}: code yields {show(g)} but the textbook definition yields {show(s)}'
    return None


def _fresh_identity(t, val):
    """under ('Jvar', kind, role)=True - the substituted variable is fresh in that child - the recursive substitution of the child
    is the child itself (the algebra's identity law).  Only for the judgement of the sort being substituted: a Jvar atom of the other
    sort never appears in a table, so it normalises nothing that the table could match."""
    if not isinstance(t, tuple) or not t:
        return t
    if t[0] == 'rec' and any(a[0] == 'Jvar' and a[2] == t[1] and v is True and a[1] == val.get(('subst-kind',), a[1]) for a, v in val.items()
                             if isinstance(a, tuple) and a):
        return ('f', t[1])
    return tuple(_fresh_identity(x, val) if isinstance(x, tuple) else x for x in t)


def _unchanged(t, val):
    """under ('unchanged', role)=True the child equals its instantiation; ('empty',)=True makes every child unchanged"""
    if not isinstance(t, tuple) or not t:
        return t
    if t[0] == 'inst' and (val.get(('unchanged', t[1])) is True or val.get(('empty',)) is True
                           or val.get(('disjoint', t[1])) is True or val.get(('disjoint', '*')) is True):
        return ('f', t[1])
    return tuple(_unchanged(x, val) if isinstance(x, tuple) else x for x in t)


def _val(val):
    return ', '.join(f'{"".join(str(x) + " " for x in a).strip()}={v}' for a, v in val.items()) or 'every input'


def show(t) -> str:
    if t == 'raise':
        return 'refuse'
    if not isinstance(t, tuple) or not t:
        return str(t)
    k = t[0]
    if k in ('self', 'plug', 'var', 'lookup'):
        return {'self': 'self', 'plug': 'plug', 'var': 'var', 'lookup': 'delta[name]'}[k]
    if k == 'f':
        return f'self.{t[1]}'
    if k == 'rec':
        return f'subst(self.{t[1]})'
    if k == 'inst':
        return f'inst(self.{t[1]})'
    if k == 'C':
        return f'{t[1]}({", ".join(show(x) for x in t[2:])})'
    if k in ('esubst', 'ssubst'):
        return f'apply_{k}({", ".join(show(x) for x in t[1:])})'
    return str(t)


# ----------------------------------------------------------------------------
# instantiate_internal

class InstCanon:
    def __init__(self, r: Rust, variant: str):
        self.r, self.variant = r, variant
        self.p_self, self.p_vars, self.p_plugs = _params(r, 'instantiate_internal')

    def fld(self, v):
        if v[0] == 'field' and v[1] == self.p_self and v[2] == self.variant:
            return _role(self.variant, v[3])
        return None

    def rec_child(self, v):
        """instantiate_internal(child, vars, plugs) -> role"""
        if v[0] == 'call' and v[1] == 'instantiate_internal' and len(v[2]) == 3:
            role = self.fld(v[2][0])
            if role is not None and v[2][1] == self.p_vars and v[2][2] == self.p_plugs:
                return role
        return None

    def term(self, v, unchanged):
        if v == self.p_self:
            return SS.SELF
        role = self.fld(v)
        if role is not None:
            if role in unchanged:
                return SS.INST(role)      # unchanged child: equal to its instantiation on this path
            return SS.F(role)
        if v[0] == 'field' and v[2] == 'Some' and v[3] == 0:
            role = self.rec_child(v[1])
            if role is not None:
                return SS.INST(role)
        if v[0] == 'agg' and v[1].startswith('Pattern::'):
            ctor = v[1].split('::')[1]
            order = mir.ENUM_FIELDS['Pattern'][ctor]
            given = {str(n): self.term(x, unchanged) for n, x in v[2]}
            if set(given) != set(order):
                raise AnalysisError(f'instantiate_internal/{self.variant}: constructor {ctor} built with fields {sorted(given)}')
            return ('C', ctor) + tuple(given[f] for f in order)
        if v[0] == 'call' and v[1] in ('apply_esubst', 'apply_ssubst') and len(v[2]) == 3:
            return (v[1][6:],) + tuple(self.term(x, unchanged) for x in v[2])
        raise AnalysisError(f'instantiate_internal/{self.variant}: result outside the analysed subset: {mireval.show(v)}')

    def cond(self, a, o):
        """-> (('unchanged', role), bool) or None if not an Option-protocol condition"""
        if a[0] == 'is_some':
            role = self.rec_child(a[1])
            if role is not None:
                return (('unchanged', role), not o)
        if a[0] == 'variant' and len(a) == 3 and a[2] == 'Option':
            role = self.rec_child(a[1])
            if isinstance(o, tuple) and o and o[0] == 'not' and set(o[1]) in ({'None'}, {'Some'}):
                o = 'Some' if set(o[1]) == {'None'} else 'None'          # an Option has two variants: "not None" is Some
            if role is not None and o in ('Some', 'None'):
                return (('unchanged', role), o == 'None')
        return None


def inst_outcomes(r: Rust):
    """-> ({Variant: [(conds, outcome)]} for the non-MetaVar arms, [paths of the MetaVar arm])"""
    arms = arms_of(r, 'instantiate_internal')
    out = {}
    for v in VARIANTS:
        if v == 'MetaVar':
            continue
        paths = arms.get(v, arms.get('_'))
        if paths is None:
            raise AnalysisError(f'instantiate_internal: no arm for {v}')
        cz = InstCanon(r, v)
        oc = []
        for p in paths:
            if p.end == 'diverge' and p.why == 'unreachable':
                continue
            conds = set()
            for a, o in p.conds[1:]:
                c = cz.cond(a, o)
                if c is None:
                    raise AnalysisError(f'instantiate_internal/{v}: condition outside the subset: {mireval.show(a)}')
                conds.add(c)
            unchanged = {a[1] for a, val in conds if val is True}
            if p.end != 'return':
                oc.append((conds, 'raise'))
                continue
            rv = p.ret
            if rv[0] == 'agg' and rv[1] == 'Option::None':
                # "unchanged": denotes self; by the protocol that equals the rebuilt constructor iff every child is unchanged
                kids = SS.CHILDREN[v]
                if all(k in unchanged for k in kids) and v in SS.FORM and kids:
                    t = ('C', v) + tuple(SS.INST(rl) if rl in kids else SS.F(rl) for rl in SS.FORM[v])
                else:
                    t = SS.SELF
                oc.append((conds, t))
            elif rv[0] == 'agg' and rv[1] == 'Option::Some':
                oc.append((conds, cz.term(rv[2][0][1], unchanged)))
            else:
                raise AnalysisError(f'instantiate_internal/{v}: result is not an Option: {mireval.show(rv)}')
        out[v] = oc
    return out, [p for p in arms.get('MetaVar', []) if not (p.end == 'diverge' and p.why == 'unreachable')]
