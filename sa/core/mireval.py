"""Engine B (2/2): symbolic path evaluation of MIR functions.

For a function (or a region of one) every acyclic path is enumerated.  Along a
path each local has a symbolic value (access path / constructor term / call
atom), each `switchInt` contributes a decision, each call an event.  Small
single-path local helpers are inlined (bounded depth); other local functions are
opaque atoms.  References are transparent, except references to bare locals
which are kept so that mutation through `&mut local` can be modelled.

Values are nested tuples:
  ('param', name)            ('int', n) ('bool', b) ('str', s) ('const', text)
  ('field', base, Variant|None, k)      ('index', base, i)
  ('refl', n)                reference to local n
  ('call', name, args[, seq])           seq present for impure calls
  ('op', Op, args)           ('discr', v, Enum)   ('len', v)
  ('agg', Name, ((field, v), ...))      ('tuple', vs)  ('array', vs)
  ('closure', loc, ((cap, v), ...))
  ('uninit', n)
"""
from __future__ import annotations

import re
from dataclasses import dataclass, field

from . import mir
from .report import AnalysisError

OPS = {'Eq', 'Ne', 'Lt', 'Le', 'Gt', 'Ge', 'Add', 'Sub', 'Mul', 'Div', 'Rem', 'BitAnd', 'BitOr', 'BitXor',
       'Shl', 'Shr', 'Not', 'Neg', 'AddWithOverflow', 'SubWithOverflow', 'MulWithOverflow', 'Offset',
       'AddUnchecked', 'SubUnchecked', 'MulUnchecked', 'Cmp'}

IDENTITY = {'Deref::deref', 'DerefMut::deref_mut', 'AsRef::as_ref', 'Clone::clone', 'Borrow::borrow',
            'Rc::new', 'Rc::clone', 'AsMut::as_mut', 'BorrowMut::borrow_mut', 'Box::new', 'Into::into', 'From::from',
            'ToOwned::to_owned'}
ITER_MAKERS = {'IntoIterator::into_iter', 'slice::iter', 'Vec::iter', 'slice::into_iter', 'Iterator::by_ref'}
# operand readers that the machine model knows as one step (a length-prefixed list): decided on their own, never spliced into a caller
OPAQUE_LOCAL = {'read_u8_vec'}
PURE_LOCAL = {'Pattern::e_fresh', 'Pattern::s_fresh', 'Pattern::positive', 'Pattern::negative',
              'Pattern::well_formed', 'Pattern::is_redundant_subst',
              'apply_esubst', 'apply_ssubst', 'instantiate_internal', 'Instruction::from'}
PURE_STD = {'slice::contains', 'Vec::contains', 'Iterator::any', 'Iterator::all', 'Iterator::find', 'Iterator::position',
            'Vec::is_empty', 'slice::is_empty', 'Vec::len', 'slice::len', 'Option::is_none', 'Option::is_some',
            'PartialEq::eq', 'PartialEq::ne', 'slice::last', 'slice::first', 'Vec::last', 'Index::index', 'slice::get',
            'Vec::get', 'Vec::new', 'Vec::with_capacity', 'Argument::new_display', 'Argument::new_debug',
            'Arguments::new', 'Arguments::from_str', 'Arguments::from_str_nonconst', 'Arguments::new_const',
            'Arguments::new_v1', 'Argument::new_lower_hex'}


def cname(callee: str) -> str:
    """Normalise a printed callee path: `Vec::<Term>::push` -> `Vec::push`,
    `<Rc<Pattern> as Deref>::deref` -> `Deref::deref`, `core::slice::<impl [u8]>::contains` -> `slice::contains`."""
    s = callee.strip()
    if s.startswith('<'):
        k = mir._match_close(s, 0)
        inner, rest = s[1:k], s[k + 1:]
        if ' as ' in inner:
            # the trait is after the last top-level ' as '
            depth = 0
            pos = -1
            i = 0
            while i < len(inner):
                c = inner[i]
                if c in '<([{':
                    depth += 1
                elif c in ')]}' or (c == '>' and inner[i - 1] not in '-='):
                    depth -= 1
                elif depth == 0 and inner.startswith(' as ', i):
                    pos = i
                i += 1
            trait = inner[pos + 4:] if pos >= 0 else inner
        else:
            trait = inner
        trait = _strip_generics(trait).split('::')[-1]
        meth = _strip_generics(rest).lstrip(':').split('::')[0]
        return f'{trait}::{meth}'
    s = _strip_generics(s)
    segs = [x for x in s.split('::') if x]
    if len(segs) >= 2:
        return '::'.join(segs[-2:])
    return segs[0] if segs else s


def _strip_generics(s: str) -> str:
    out = []
    i = 0
    n = len(s)
    while i < n:
        c = s[i]
        if c == '<':
            k = mir._match_close(s, i)
            i = k + 1
            continue
        out.append(c)
        i += 1
    r = ''.join(out)
    r = re.sub(r'::+', '::', r)
    return r.strip(':') if r.startswith('::') else r


# ----------------------------------------------------------------------------

@dataclass
class Event:
    kind: str              # call | guard | store | loop
    name: str = ''
    args: tuple = ()
    result: object = None
    block: str = ''
    fn: str = ''
    extra: object = None


@dataclass
class Path:
    conds: list = field(default_factory=list)      # (atom, outcome) ; outcome bool or variant label
    events: list = field(default_factory=list)
    end: object = None                             # 'return' | 'diverge' | ('stop', bb) | ('back', bb)
    ret: object = None
    env: dict = field(default_factory=dict)
    blocks: list = field(default_factory=list)
    why: str = ''


class Evaluator:
    MAX_PATHS = 60000

    def __init__(self, fns: dict[str, mir.Fn], enums: dict[str, list[tuple[str, int]]], inline_depth: int = 4):
        self.fns = fns
        self.enums = enums
        self.inline_depth = inline_depth
        self._stack: list = []
        self._summaries: dict[str, object] = {}
        self._evaluating: set[str] = set()
        self._seq = 0
        self._closure_by_loc = {f.closure_loc: f for f in fns.values() if f.closure_loc}

    # -- types -----------------------------------------------------------
    def enum_of_type(self, ty: str) -> str:
        t = ty.strip()
        while True:
            t2 = re.sub(r'^(&|mut |\*const |\*mut )', '', t).strip()
            t2 = re.sub(r"^'\w+ ", '', t2)
            m = re.match(r'(?:alloc::rc::)?Rc<(.*)>$', t2)
            if m:
                t2 = m.group(1)
            if t2 == t:
                break
            t = t2
        m = re.match(r'(?:core::option::)?Option<', t)
        if m:
            return 'Option'
        m = re.match(r'(?:core::result::)?Result<', t)
        if m:
            return 'Result'
        m = re.match(r'(\w+)$', t)
        return m.group(1) if m else '?'

    def variant_name(self, enum: str, label: str) -> str:
        if enum == 'Option':
            return {'0': 'None', '1': 'Some'}.get(label, label)
        if enum == 'Result':
            return {'0': 'Ok', '1': 'Err'}.get(label, label)
        for name, d in self.enums.get(enum, []):
            if str(d) == label:
                return name
        return label

    def variant_index(self, enum: str, name: str):
        if enum == 'Option':
            return {'None': 0, 'Some': 1}.get(name)
        for n, d in self.enums.get(enum, []):
            if n == name:
                return d
        return None

    # -- place / operand evaluation ---------------------------------------
    def place_type(self, fn: mir.Fn, place) -> str:
        if place[0] == 'l':
            n = place[1]
            if n in fn.local_types:
                return fn.local_types[n]
            for k, t in fn.params:
                if k == n:
                    return t
            return '?'
        if place[0] == 'deref':
            t = self.place_type(fn, place[1]).strip()
            t = re.sub(r"^&('\w+ )?(mut )?", '', t)
            m = re.match(r'(?:alloc::rc::)?Rc<(.*)>$', t)
            return m.group(1) if m else t
        if place[0] == 'fld' and len(place) > 3:
            return place[3]
        return '?'

    def raw_place(self, fn, place, env):
        k = place[0]
        if k == 'l':
            return env.get(place[1], ('uninit', place[1]))
        if k == 'deref':
            v = self.raw_place(fn, place[1], env)
            if isinstance(v, tuple) and v and v[0] == 'refl':
                return env.get(v[1], ('uninit', v[1]))
            return v
        if k == 'down':
            return ('down', self.raw_place(fn, place[1], env), place[2])
        if k == 'fld':
            base = self.raw_place(fn, place[1], env)
            return self.project(base, place[2], env)
        if k == 'idx':
            base = self.raw_place(fn, place[1], env)
            it = place[2]
            m = re.match(r'_(\d+)$', it)
            idx = env.get(int(m.group(1)), ('uninit', int(m.group(1)))) if m else ('const', it)
            return ('index', self.res(base, env), self.res(idx, env))
        raise AnalysisError(f'unknown place {place}')

    def project(self, base, k, env):
        if isinstance(base, tuple) and base:
            if base[0] == 'refl':
                base = env.get(base[1], ('uninit', base[1]))
            if base[0] == 'down':
                inner = base[1]
                if isinstance(inner, tuple) and inner and inner[0] == 'refl':
                    inner = env.get(inner[1], ('uninit', inner[1]))
                if inner[0] == 'try' and base[2] == 'Continue':
                    return self.project(('down', inner[1], 'Some'), k, env)
                if inner[0] == 'agg' and inner[1].split('::')[-1] == base[2]:
                    return self._agg_field(inner, k)
                return ('field', inner, base[2], k)
            if base[0] == 'agg':
                return self._agg_field(base, k)
            if base[0] in ('tuple', 'array') and k < len(base[1]):
                return base[1][k]
            if base[0] == 'closure' and k < len(base[2]):
                return base[2][k][1]
        return ('field', base, None, k)

    @staticmethod
    def _agg_field(agg, k):
        fields = agg[2]
        if k < len(fields):
            return fields[k][1]
        return ('field', agg, None, k)

    def res(self, v, env):
        """Deep-resolve references to locals at the moment of use."""
        if not isinstance(v, tuple) or not v:
            return v
        if v[0] == 'refl':
            return self.res(env.get(v[1], ('uninit', v[1])), env)
        if v[0] in ('int', 'bool', 'str', 'const', 'param', 'uninit', 'vec'):
            return v
        if v[0] == 'down':
            return ('down', self.res(v[1], env), v[2])
        return tuple(self.res(x, env) if isinstance(x, tuple) else x for x in v)

    def operand(self, fn, text: str, env):
        t = text.strip()
        for pre in ('no_retag copy ', 'copy ', 'move '):
            if t.startswith(pre):
                p = mir.try_place(t[len(pre):])
                if p is None:
                    raise AnalysisError(f'{fn.short}: cannot parse operand {text!r}')
                return self.raw_place(fn, p, env)
        if t.startswith('const '):
            return self.const(t[6:])
        p = mir.try_place(t)
        if p is not None:
            return self.raw_place(fn, p, env)
        raise AnalysisError(f'{fn.short}: cannot parse operand {text!r}')

    @staticmethod
    def const(c: str):
        c = c.strip()
        if c in ('true', 'false'):
            return ('bool', c == 'true')
        m = re.match(r'(-?\d+)_(?:[iu](?:8|16|32|64|128|size))$', c)
        if m:
            return ('int', int(m.group(1)))
        if c.startswith('"'):
            return ('str', c[1:-1])
        if c == '()':
            return ('tuple', ())
        return ('const', c)

    def rvalue(self, fn, rhs: str, env):
        r = rhs.strip()
        # casts
        m = re.match(r'(.*) as [^()]*(?:\([^)]*\))? \((\w+)\)$', r)
        if m and (r.startswith('copy ') or r.startswith('move ') or r.startswith('const ')):
            return self.operand(fn, m.group(1), env)
        for pre in ('copy ', 'move ', 'no_retag copy ', 'const '):
            if r.startswith(pre):
                return self.operand(fn, r, env)
        if r.startswith('&'):
            body = re.sub(r'^&(raw (const|mut) )?(\(fake\) )?(fake (shallow )?)?(mut )?', '', r)
            p = mir.try_place(body)
            if p is None:
                raise AnalysisError(f'{fn.short}: cannot parse borrow {rhs!r}')
            if p[0] == 'l':
                return ('refl', p[1])
            if p[0] == 'deref':
                return self.raw_place(fn, p[1], env) if self._is_ref(self.raw_place(fn, p[1], env)) \
                    else self.raw_place(fn, p, env)
            return self.raw_place(fn, p, env)
        if r.startswith('discriminant('):
            p = mir.try_place(r[13:-1])
            if p is None:
                raise AnalysisError(f'{fn.short}: cannot parse {rhs!r}')
            return ('discr', self.res(self.raw_place(fn, p, env), env), self.enum_of_type(self.place_type(fn, p)))
        if r.startswith('PtrMetadata(') or r.startswith('Len('):
            inner = r[r.index('(') + 1:-1]
            try:
                return ('len', self.res(self.operand(fn, inner, env), env))
            except AnalysisError:
                p = mir.try_place(inner)
                return ('len', self.res(self.raw_place(fn, p, env), env))
        sc = mir.split_call(r)
        if sc is not None:
            name, args = sc
            if name in OPS:
                return ('op', name, tuple(self.res(self.operand(fn, a, env), env) for a in args))
            if name == 'CopyForDeref':
                return self.operand(fn, 'copy ' + args[0], env)
            if name == '':
                vals = tuple(self.operand(fn, a, env) for a in args if a)
                return ('tuple', vals)
            # tuple-like aggregate
            return ('agg', _strip_generics(name), tuple((i, self.operand(fn, a, env)) for i, a in enumerate(args)))
        if r.startswith('['):
            k = mir._match_close(r, 0)
            inner = r[1:k]
            if ';' in inner and k == len(r) - 1:
                a, _, cnt = inner.rpartition(';')
                return ('array', (self.operand(fn, a, env),))
            return ('array', tuple(self.operand(fn, a.strip(), env) for a in mir.split_top(inner) if a.strip()))
        m = re.match(r'\{closure@([^}]*)\}(?: \{ (.*) \})?$', r)
        if m:
            caps = []
            if m.group(2):
                for part in mir.split_top(m.group(2)):
                    nm, _, val = part.strip().partition(': ')
                    caps.append((nm, self.operand(fn, val, env)))
            return ('closure', m.group(1), tuple(caps))
        m = re.match(r'([A-Za-z_][\w:<>, &\']*?) \{ (.*) \}$', r)
        if m:
            fields = []
            for part in mir.split_top(m.group(2)):
                nm, _, val = part.strip().partition(': ')
                fields.append((nm, self.operand(fn, val, env)))
            return ('agg', _strip_generics(m.group(1)), tuple(fields))
        if re.match(r'[A-Za-z_][\w:<>, &\'()\[\];]*::[A-Za-z_]\w*$', r) or re.match(r'[A-Za-z_][\w:<>, &\']*$', r):
            return ('agg', _strip_generics(r), ())                  # a unit variant, possibly of a type with tuple generics
        raise AnalysisError(f'{fn.short}: cannot parse rvalue {rhs!r}')

    @staticmethod
    def _is_ref(v) -> bool:
        return isinstance(v, tuple) and bool(v) and v[0] == 'refl'

    # -- atoms -------------------------------------------------------------
    def bool_atom(self, v):
        """-> (atom, polarity) for a boolean-valued value."""
        if v[0] == 'bool':
            return ('const', v[1]), True
        if v[0] == 'op' and v[1] == 'Not':
            a, p = self.bool_atom(v[2][0])
            return a, not p
        if v[0] == 'op' and v[1] in ('Eq', 'Ne'):
            a, b = sorted(v[2], key=repr)
            return ('eq', a, b), v[1] == 'Eq'
        if v[0] == 'call' and v[1] in ('PartialEq::eq', 'PartialEq::ne'):
            a, b = sorted(v[2], key=repr)
            return ('eq', a, b), v[1].endswith('eq')
        if v[0] == 'call' and v[1] in ('Option::is_none', 'Option::is_some'):
            return ('is_some', v[2][0]), v[1].endswith('is_some')
        return v, True

    # -- path enumeration ----------------------------------------------------
    def paths(self, fn: mir.Fn, entry: str = 'bb0', env: dict | None = None, stops: tuple = (),
              depth: int = 0) -> list[Path]:
        if env is None:
            env = {}
            for n, _t in fn.params:
                env[n] = ('param', fn.debug_of.get(n, f'_{n}'))
        out: list[Path] = []
        self._stack.append(fn.short)
        try:
            self._walk(fn, entry, dict(env), [], [], [], {}, stops, out, depth, entry)
        finally:
            self._stack.pop()
        for p in out:
            p.conds = self._merge_variant_conds(p.conds)
        return out

    def _merge_variant_conds(self, conds):
        """one condition per scrutinee: `not A` followed by `is B` is `is B`; `not A`, `not B` on a three-variant enum is `is C`
        (an `if let` chain and a `match` then give the same path conditions)"""
        keys = [c for c, _o in conds if c[0] == 'variant']
        if len(keys) == len(set(keys)) and not any(isinstance(o, tuple) and o and o[0] == 'not' for c, o in conds if c[0] == 'variant'):
            return conds
        merged: dict = {}
        for c, o in conds:
            if c[0] != 'variant':
                continue
            have = merged.get(c)
            if isinstance(o, tuple) and o and o[0] == 'not':
                if have is None:
                    merged[c] = ('not', tuple(o[1]))
                elif have[0] == 'not':
                    merged[c] = ('not', tuple(sorted(set(have[1]) | set(o[1]))))
            else:
                merged[c] = ('is', o)
        for c, m in list(merged.items()):
            if m[0] == 'not':
                names = {'Option': ['None', 'Some'], 'Result': ['Ok', 'Err']}.get(c[2]) or [n for n, _i in self.enums.get(c[2], [])]
                rest = [n for n in names if n not in m[1]]
                if names and len(rest) == 1:
                    merged[c] = ('is', rest[0])
        out, done = [], set()
        for c, o in conds:
            if c[0] != 'variant':
                out.append((c, o))
                continue
            if c in done:
                continue
            done.add(c)
            m = merged[c]
            out.append((c, m[1] if m[0] == 'is' else ('not', m[1])))
        return out

    def _walk(self, fn, bb, env, conds, events, visited, decided, stops, out, depth, entry):
        while True:
            if len(out) > self.MAX_PATHS:
                raise AnalysisError(f'{fn.short}: more than {self.MAX_PATHS} paths')
            if bb in visited:
                # a loop over a literal array (`for x in [a, b, c]`) is unrolled: re-entering a block is allowed while the position of
                # a concrete array iterator has advanced since the last visit; any other back edge ends the path
                its = [v[2] for v in env.values() if isinstance(v, tuple) and v and v[0] == 'arrayiter']
                if not its or env.get('__prog__', {}).get(bb, -1) >= sum(its):
                    out.append(Path(conds, events, ('back', bb), None, env, visited + [bb]))
                    return
            if any(isinstance(v, tuple) and v and v[0] == 'arrayiter' for v in env.values()):
                env['__prog__'] = {**env.get('__prog__', {}),
                                   bb: sum(v[2] for v in env.values() if isinstance(v, tuple) and v and v[0] == 'arrayiter')}
            if bb in stops and bb != entry:
                out.append(Path(conds, events, ('stop', bb), None, env, visited + [bb]))
                return
            blk = fn.blocks.get(bb)
            if blk is None or blk.cleanup:
                out.append(Path(conds, events, 'diverge', None, env, visited + [bb], why='cleanup'))
                return
            visited = visited + [bb]
            for st in blk.stmts:
                sa = mir.split_assign(st)
                if sa is None:
                    continue
                place, rhs = sa
                val = self.rvalue(fn, rhs, env)
                self.assign(fn, place, val, env, events, bb)
            t = mir.parse_term(blk.term)
            if t.kind == 'return':
                out.append(Path(conds, events, 'return', self.res(env.get(0, ('uninit', 0)), env), env, visited))
                return
            if t.kind == 'unreachable':
                out.append(Path(conds, events, 'diverge', None, env, visited, why='unreachable'))
                return
            if t.kind in ('goto', 'drop'):
                if not t.targets:
                    out.append(Path(conds, events, 'diverge', None, env, visited, why='drop-unwind'))
                    return
                bb = t.targets[0][1]
                continue
            if t.kind == 'assert':
                c = t.operand
                neg = c.startswith('!')
                v = self.res(self.operand(fn, c.lstrip('!'), env), env)
                atom, pol = self.bool_atom(v)
                events = events + [Event('guard', 'assert', (atom, pol != neg), None, bb, fn.short)]
                bb = t.targets[0][1]
                continue
            if t.kind == 'switch':
                v = self.res(self.operand(fn, t.operand, env), env)
                self._switch(fn, t, v, env, conds, events, visited, decided, stops, out, depth, entry)
                return
            if t.kind == 'call':
                nxt = self._call(fn, t, env, conds, events, visited, decided, stops, out, depth, entry, bb)
                if nxt is None:
                    return
                bb, events, conds = nxt
                continue
            raise AnalysisError(f'{fn.short}:{bb}: unknown terminator kind {t.kind}')

    def assign(self, fn, place, val, env, events, bb):
        if place[0] == 'l':
            env[place[1]] = val
            return
        if place[0] == 'deref' and place[1][0] == 'l':
            tgt = env.get(place[1][1])
            if self._is_ref(tgt):
                env[tgt[1]] = val
                return
        # field of a local aggregate (e.g. checked-arith tuple) or a store through a pointer: record
        events.append(Event('store', '', (self._place_text(fn, place, env), self.res(val, env)), None, bb, fn.short))

    def _place_text(self, fn, place, env):
        try:
            return self.res(self.raw_place(fn, place, env), env)
        except AnalysisError:
            return ('place', str(place))

    def _switch(self, fn, t, v, env, conds, events, visited, decided, stops, out, depth, entry):
        # constant scrutinee
        if v[0] == 'bool' or v[0] == 'int':
            k = str(int(v[1]))
            tgt = None
            for lab, b in t.targets:
                if lab == k:
                    tgt = b
            if tgt is None:
                tgt = dict(t.targets).get('otherwise')
            if tgt is None:
                raise AnalysisError(f'{fn.short}: constant switch without target')
            self._walk(fn, tgt, env, conds, events, visited, decided, stops, out, depth, entry)
            return
        labels = [lab for lab, _ in t.targets]
        if v[0] == 'discr' and v[1][0] == 'try':
            # ControlFlow: 0 = Continue (Some), 1 = Break (None)
            opt = v[1][1]
            t2 = mir.Term('switch', [('1' if lab == '0' else ('0' if lab == '1' else lab), b) for lab, b in t.targets])
            self._switch(fn, t2, ('discr', opt, 'Option'), env, conds, events, visited, decided, stops, out, depth, entry)
            return
        if v[0] == 'discr':
            inner, enum = v[1], v[2]
            if inner[0] == 'agg':  # known constructor
                vn = inner[1].split('::')[-1]
                idx = self.variant_index(enum, vn)
                if idx is None and len(inner[1].split('::')) >= 2:
                    idx = self.variant_index(inner[1].split('::')[-2], vn)
                if idx is not None:
                    tgt = dict(t.targets).get(str(idx), dict(t.targets).get('otherwise'))
                    self._walk(fn, tgt, env, conds, events, visited, decided, stops, out, depth, entry)
                    return
            key = ('variant', inner, enum)
            named = [(self.variant_name(enum, lab) if lab != 'otherwise' else 'otherwise', b) for lab, b in t.targets]
            if key in decided:
                have = decided[key]
                if have[0] == 'is':
                    tgt = dict(named).get(have[1], dict(named).get('otherwise'))
                    self._walk(fn, tgt, env, conds, events, visited, decided, stops, out, depth, entry)
                    return
            excl = tuple(n for n, _ in named if n != 'otherwise')
            for n, b in named:
                if key in decided and decided[key][0] == 'not' and n != 'otherwise' and n in decided[key][1]:
                    continue
                d2 = dict(decided)
                if n == 'otherwise':
                    prev = decided[key][1] if key in decided else ()
                    d2[key] = ('not', tuple(sorted(set(prev) | set(excl))))
                    c2 = conds + [(('variant', inner, enum), ('not', excl))]
                else:
                    d2[key] = ('is', n)
                    c2 = conds + [(('variant', inner, enum), n)]
                self._walk(fn, b, dict(env), c2, list(events), visited, d2, stops, out, depth, entry)
            return
        # boolean / integer scrutinee
        atom, pol = self.bool_atom(v)
        tg = dict(t.targets)
        if set(labels) <= {'0', 'otherwise', '1'} and len(labels) == 2:
            f_t = tg.get('0')
            t_t = tg.get('otherwise', tg.get('1'))
            if f_t is None:  # [1: a, otherwise: b]
                t_t, f_t = tg.get('1'), tg.get('otherwise')
            if atom in decided:
                val = decided[atom]
                take = t_t if (val == pol) else f_t
                self._walk(fn, take, env, conds, events, visited, decided, stops, out, depth, entry)
                return
            for outcome, tgt in ((False, f_t), (True, t_t)):
                d2 = dict(decided)
                d2[atom] = (outcome == pol)
                self._walk(fn, tgt, dict(env), conds + [(atom, outcome == pol)], list(events), visited, d2,
                           stops, out, depth, entry)
            return
        # multiway integer switch on an opaque value (e.g. a byte)
        key = ('intval', v)
        for lab, b in t.targets:
            d2 = dict(decided)
            c2 = conds + [(key, lab if lab != 'otherwise' else ('not', tuple(x for x in labels if x != 'otherwise')))]
            self._walk(fn, b, dict(env), c2, list(events), visited, d2, stops, out, depth, entry)

    # -- calls ------------------------------------------------------------
    def _call(self, fn, t, env, conds, events, visited, decided, stops, out, depth, entry, bb):
        name = cname(t.callee)
        raw_args = [self.operand(fn, a, env) for a in t.args]
        args = tuple(self.res(a, env) for a in raw_args)
        ret_bb = t.targets[0][1] if t.targets else None
        if ret_bb is None:
            events = events + [Event('call', name, args, None, bb, fn.short, extra='diverges')]
            out.append(Path(conds, events, 'diverge', None, env, visited, why=name))
            return None
        events = list(events)
        val = None
        if name in IDENTITY and len(args) >= 1:
            val = raw_args[0] if self._is_ref(raw_args[0]) and name in ('Deref::deref', 'DerefMut::deref_mut',
                                                                       'AsRef::as_ref', 'Borrow::borrow') else args[0]
            if name in ('Clone::clone', 'Rc::clone', 'Rc::new', 'Box::new', 'ToOwned::to_owned'):
                val = args[0]
        elif name in ITER_MAKERS:
            val = ('iter', args[0])
        elif name == 'Iterator::next' and len(raw_args) == 1 and self._is_ref(raw_args[0]) and self._array_iter(env.get(raw_args[0][1])) is not None:
            # next() on an iterator over a literal array: the elements in order, then None
            n = raw_args[0][1]
            elems, pos = self._array_iter(env.get(n))
            if pos < len(elems):
                val = ('agg', 'Option::Some', ((0, self.res(elems[pos], env)),))
                env[n] = ('arrayiter', elems, pos + 1)
            else:
                val = ('agg', 'Option::None', ())
                env[n] = ('arrayiter', elems, pos + 1)          # the exhausted state is a step forward too
        elif name in ('Vec::new', 'Vec::with_capacity'):
            val = ('vec', fn.short, bb)        # identity of a fresh vector = its creation site
        elif name in ('Option::expect', 'Option::unwrap', 'Result::expect', 'Result::unwrap'):
            opt = args[0]
            okv = 'Some' if name.startswith('Option') else 'Ok'
            if not (opt[0] == 'agg' and opt[1].split('::')[-1] == okv):
                events.append(Event('guard', name, (('variant', opt, name.split('::')[0]), okv), None, bb, fn.short))
            val = self.project(('down', opt, okv), 0, env)
        elif name in ('Option::unwrap_or_else', 'Option::unwrap_or') and len(args) == 2 and ret_bb is not None:
            # `opt.unwrap_or_else(f)` == match opt { Some(x) => x, None => f() }: fork the path
            opt = args[0]
            if name.endswith('_else') and args[1][0] == 'closure':
                cf = self._closure_by_loc.get(args[1][1])
                alt = self.closure_value(cf, args[1]) if cf is not None else None
            elif name.endswith('_else'):
                alt = None
            else:
                alt = args[1]
            if alt is not None:
                key = ('variant', opt, 'Option')
                for lab, value in (('Some', self.project(('down', opt, 'Some'), 0, env)), ('None', alt)):
                    if key in decided and not self._variant_possible(decided[key], lab):
                        continue
                    e2 = dict(env)
                    ev2 = list(events)
                    self.assign(fn, t.dest, value, e2, ev2, bb)
                    d2 = dict(decided)
                    d2[key] = ('is', lab)
                    c2 = conds if (key in decided and decided[key][0] == 'is') else conds + [(key, lab)]
                    self._walk(fn, ret_bb, e2, c2, ev2, visited, d2, stops, out, depth, entry)
                return None
        elif name in ('Option::map', 'Option::and_then') and len(args) == 2 and args[1][0] == 'closure' and ret_bb is not None:
            # `opt.map(f)` == match opt { Some(x) => Some(f(x)), None => None }: fork the path (and_then: f(x) itself)
            opt = args[0]
            cf = self._closure_by_loc.get(args[1][1])
            body = self.closure_value(cf, args[1]) if cf is not None else None
            if body is not None:
                payload = self.project(('down', opt, 'Some'), 0, env)

                def sub1(v):
                    if v == ('param', 'arg1'):
                        return payload
                    if isinstance(v, tuple):
                        return tuple(sub1(x) if isinstance(x, tuple) else x for x in v)
                    return v
                mapped = sub1(body)
                some_val = ('agg', 'Option::Some', ((0, mapped),)) if name == 'Option::map' else mapped
                key = ('variant', opt, 'Option')
                for lab, value in (('Some', some_val), ('None', ('agg', 'Option::None', ()))):
                    if key in decided and not self._variant_possible(decided[key], lab):
                        continue
                    e2 = dict(env)
                    ev2 = list(events)
                    self.assign(fn, t.dest, value, e2, ev2, bb)
                    d2 = dict(decided)
                    d2[key] = ('is', lab)
                    c2 = conds if (key in decided and decided[key][0] == 'is') else conds + [(key, lab)]
                    self._walk(fn, ret_bb, e2, c2, ev2, visited, d2, stops, out, depth, entry)
                return None
        elif name == 'Try::branch' and len(args) == 1:
            # `?` on an Option: Continue(v) iff Some(v)   (std semantics, stated assumption)
            val = ('try', args[0])
        elif name == 'FromResidual::from_residual':
            val = ('agg', 'Option::None', ())
        elif name in ('Fn::call', 'FnMut::call_mut', 'FnOnce::call_once') and args and args[0][0] == 'closure':
            val = self._inline_closure(fn, args[0], args[1:], env, conds, events, depth, bb)
        else:
            callee = self._local(t.callee, name)
            # a call back into a function that is being evaluated further up (mutual recursion through a helper) is a recursive call:
            # it stays a call, like the direct recursion of the function itself
            if callee is not None and name not in PURE_LOCAL and name not in OPAQUE_LOCAL and depth < self.inline_depth \
                    and callee.short != fn.short and callee.short not in self._stack:
                s = self.summary(callee, depth + 1)
                if s is not None:
                    val = self._apply_summary(callee, s, raw_args, args, env, events, bb, fn)
                elif self._inline_forking(fn, t, callee, raw_args, args, env, conds, events, visited, decided, stops, out, depth, entry, bb):
                    return None
            if val is None:
                # a recursive call of the helper being evaluated in place: a function of its arguments (no `&mut` parameter, no
                # globals in this crate), so it is an atom like the judgements it generalises
                rec_pure = callee is not None and callee.short in self._evaluating \
                    and not any(pty.startswith('&mut ') for _pn, pty in callee.params)
                pure = name in PURE_LOCAL or name in PURE_STD or rec_pure
                if pure:
                    val = ('call', name, args)
                    events.append(Event('call', name, args, val, bb, fn.short, extra='pure'))
                else:
                    self._seq += 1
                    val = ('call', name, args, len([e for e in events if e.kind == 'call' and e.extra != 'pure']) + 1)
                    events.append(Event('call', name, args, val, bb, fn.short, extra=tuple(raw_args)))
                    if callee is not None:
                        # a local function that may write through `&mut local`: the local now holds "what the callee left there"
                        for i, ((_pn, pty), ra) in enumerate(zip(callee.params, raw_args)):
                            if pty.startswith('&mut ') and self._is_ref(ra):
                                cur = env.get(ra[1])
                                if isinstance(cur, tuple) and cur and cur[0] == 'vec':
                                    continue      # same container object, contents changed: identity is what matters
                                env[ra[1]] = ('mut', name, i, args)
        self.assign(fn, t.dest, val, env, events, bb)
        return ret_bb, events, conds

    @staticmethod
    def _array_iter(v):
        """(elements, position) if v is an iterator over a literal array of two or more elements (`[x; n]` is not told apart from `[x]`
        in this model, so one-element arrays stay symbolic)"""
        if isinstance(v, tuple) and v:
            if v[0] == 'arrayiter':
                return v[1], v[2]
            if v[0] == 'iter' and isinstance(v[1], tuple) and v[1] and v[1][0] == 'array' and len(v[1][1]) >= 2:
                return v[1][1], 0
        return None

    @staticmethod
    def _variant_possible(have, lab) -> bool:
        """is variant `lab` consistent with what is decided about the scrutinee: ('is', v) | ('not', (v1, ..))"""
        if have[0] == 'is':
            return have[1] == lab
        return lab not in have[1]

    def _local(self, callee: str, name: str):
        if callee in self.fns:
            return self.fns[callee]
        if name in self.fns:
            return self.fns[name]
        # an inherent method is listed under its bare name in the MIR dump (`impl T { fn m }` -> `m`) but called as `T::m`
        last = name.split('::')[-1]
        if '::' in name and last in self.fns and sum(1 for k in self.fns if k.split('::')[-1] == last) == 1:
            return self.fns[last]
        return None

    def summary(self, callee: mir.Fn, depth: int):
        """Single-returning-path helpers get a summary (conds-as-guards, events, ret); others None."""
        key = callee.short
        if key in self._summaries:
            return self._summaries[key]
        self._summaries[key] = None  # recursion guard
        try:
            ps = self.paths(callee, depth=depth)
        except AnalysisError:
            return None
        rets = [p for p in ps if p.end == 'return']
        if len(rets) != 1 or any(isinstance(p.end, tuple) for p in ps):
            return None
        self._summaries[key] = rets[0]
        return rets[0]

    def _callee_paths(self, callee: mir.Fn, depth: int):
        """all paths of a local helper evaluated on symbolic parameters (None if it loops, recurses or cannot be evaluated)"""
        key = ('paths', callee.short)
        if key in self._summaries:
            return self._summaries[key]
        self._summaries[key] = None      # recursion guard
        self._evaluating.add(callee.short)
        try:
            ps = self.paths(callee, depth=depth)
        except AnalysisError:
            return None
        finally:
            self._evaluating.discard(callee.short)
        if not ps or len(ps) > 64 or any(isinstance(p.end, tuple) for p in ps):
            return None
        self._summaries[key] = ps
        return ps

    def _inline_forking(self, fn, t, callee, raw_args, args, env, conds, events, visited, decided, stops, out, depth, entry, bb) -> bool:
        """a local helper with several paths (tests, early panics) is evaluated in place: each of its paths
        that is consistent with what the caller has already decided continues (or ends) the caller's path, with the helper's
        conditions and calls recorded as the caller's.  -> True if the call was handled this way."""
        # a `&mut` parameter is fine when the caller hands over one of its own parameters (the helper's pops / pushes are then the
        # caller's, on the same container); a `&mut` to a caller local whose contents are tracked in env is not modelled
        for (_pn, pty), a in zip(callee.params, args):
            if pty.startswith('&mut ') and not (isinstance(a, tuple) and a and a[0] == 'param'):
                return False
        ps = self._callee_paths(callee, depth + 1)
        if ps is None:
            return False
        ret_bb = t.targets[0][1]
        sub = {('param', callee.debug_of.get(n, f'_{n}')): a for (n, _t), a in zip(callee.params, args)}
        for sp in ps:
            base = len([e for e in events if e.kind == 'call' and e.extra != 'pure'])
            renum: dict = {}
            k = 0
            for e in sp.events:
                if e.kind == 'call' and e.extra != 'pure' and e.result is not None:
                    k += 1
                    renum[e.result] = base + k

            def rw(v):
                if not isinstance(v, tuple) or not v:
                    return v
                if v in sub:
                    return sub[v]
                if v in renum:
                    return ('call', v[1], tuple(rw(x) for x in v[2]), renum[v])
                return tuple(rw(x) if isinstance(x, tuple) else x for x in v)

            d2, c2, ok = dict(decided), list(conds), True
            for c, o in sp.conds:
                key = rw(c)
                have = d2.get(key)
                if key[0] == 'variant':
                    if isinstance(o, tuple) and o[0] == 'not':
                        if have is not None and have[0] == 'is':
                            if have[1] in o[1]:
                                ok = False
                                break
                            continue            # already known to be another variant
                        prev = have[1] if have is not None else ()
                        d2[key] = ('not', tuple(sorted(set(prev) | set(o[1]))))
                    else:
                        if have is not None and ((have[0] == 'is' and have[1] != o) or (have[0] == 'not' and o in have[1])):
                            ok = False
                            break
                        if have is not None and have[0] == 'is':
                            continue
                        d2[key] = ('is', o)
                elif key[0] == 'intval':
                    pass
                else:
                    # a boolean atom of the helper with the arguments substituted: normalise again (a parameter may have been
                    # replaced by a constant or by a negation)
                    key, pol = self.bool_atom(key)
                    o = (o == pol) if isinstance(o, bool) else o
                    if key[0] == 'const':
                        if bool(key[1]) != o:
                            ok = False
                            break
                        continue
                    have = d2.get(key)
                    if have is not None:
                        if have != o:
                            ok = False
                            break
                        continue
                    d2[key] = o
                c2.append((key, o))
            if not ok:
                continue
            ev2 = list(events)
            for e in sp.events:
                ev2.append(Event(e.kind, e.name, tuple(rw(a) for a in e.args), rw(e.result) if e.result else None,
                                 bb, fn.short, extra=('via', callee.short) if e.extra not in ('pure', 'diverges') else e.extra))
            if sp.end == 'diverge':
                out.append(Path(c2, ev2, 'diverge', None, env, visited, why=sp.why))
                continue
            e2 = dict(env)
            self.assign(fn, t.dest, rw(sp.ret), e2, ev2, bb)
            self._walk(fn, ret_bb, e2, c2, ev2, visited, d2, stops, out, depth, entry)
        return True

    def _apply_summary(self, callee, s: Path, raw_args, args, env, events, bb, fn):
        sub = {('param', callee.debug_of.get(n, f'_{n}')): a for (n, _t), a in zip(callee.params, args)}
        base = len([e for e in events if e.kind == 'call' and e.extra != 'pure'])
        renum: dict = {}
        k = 0
        for e in s.events:
            if e.kind == 'call' and e.extra != 'pure' and e.result is not None:
                k += 1
                renum[e.result] = base + k

        def rw(v):
            if not isinstance(v, tuple) or not v:
                return v
            if v in sub:
                return sub[v]
            if v in renum:
                return ('call', v[1], tuple(rw(x) for x in v[2]), renum[v])
            return tuple(rw(x) if isinstance(x, tuple) else x for x in v)

        for e in s.events:
            events.append(Event(e.kind, e.name, tuple(rw(a) for a in e.args), rw(e.result) if e.result else None,
                                bb, fn.short, extra=('via', callee.short) if e.extra != 'pure' else 'pure'))
        for c, o in s.conds:
            events.append(Event('guard', callee.short, (rw(c), o), None, bb, fn.short))
        return rw(s.ret)

    def _inline_closure(self, fn, clo, args, env, conds, events, depth, bb):
        cf = self._closure_by_loc.get(clo[1])
        if cf is None:
            raise AnalysisError(f'{fn.short}: closure at {clo[1]} not found')
        v = self.closure_value(cf, clo)
        if v is None:
            self._seq += 1
            return ('call', 'closure', (clo,) + tuple(args), self._seq)
        return v

    def closure_value(self, cf: mir.Fn, clo):
        """Return value of a single-path pure closure with its captures substituted."""
        env0 = {cf.params[0][0]: clo}
        for n, _t in cf.params[1:]:
            env0[n] = ('param', f'arg{n - 1}')
        ps = self.paths(cf, env=env0, depth=1)
        rets = [p for p in ps if p.end == 'return']
        if len(rets) != 1:
            return None
        return rets[0].ret

    def closure_paths(self, clo):
        cf = self._closure_by_loc.get(clo[1])
        if cf is None:
            raise AnalysisError(f'closure at {clo[1]} not found')
        env0 = {cf.params[0][0]: clo}
        for n, _t in cf.params[1:]:
            env0[n] = ('param', f'arg{n - 1}')
        return self.paths(cf, env=env0, depth=1)


# ----------------------------------------------------------------------------
# rendering

def show(v) -> str:
    if not isinstance(v, tuple) or not v:
        return str(v)
    k = v[0]
    if k == 'param':
        return v[1]
    if k in ('int', 'bool'):
        return str(v[1])
    if k == 'str':
        return repr(v[1])
    if k == 'const':
        return v[1]
    if k == 'field':
        return f'{show(v[1])}.{v[2]}.{v[3]}' if v[2] else f'{show(v[1])}.{v[3]}'
    if k == 'down':
        return f'({show(v[1])} as {v[2]})'
    if k == 'index':
        return f'{show(v[1])}[{show(v[2])}]'
    if k == 'refl':
        return f'&_{v[1]}'
    if k == 'call':
        tail = ''
        if len(v) == 4:
            tail = f'#{v[3]}' if not isinstance(v[3], tuple) else f'#{v[3][1]}.{v[3][2]}@{v[3][3]}'
        return f'{v[1]}({", ".join(show(a) for a in v[2])}){tail}'
    if k == 'op':
        return f'{v[1]}({", ".join(show(a) for a in v[2])})'
    if k == 'discr':
        return f'discr({show(v[1])})'
    if k == 'variant':
        return f'variant({show(v[1])})'
    if k == 'len':
        return f'len({show(v[1])})'
    if k == 'agg':
        if not v[2]:
            return v[1]
        return f'{v[1]}{{{", ".join(f"{n}: {show(x)}" for n, x in v[2])}}}'
    if k in ('tuple', 'array'):
        return '(' + ', '.join(show(x) for x in v[1]) + ')'
    if k == 'closure':
        return f'closure@{v[1].split(":", 1)[-1]}{{{", ".join(f"{n}: {show(x)}" for n, x in v[2])}}}'
    if k == 'iter':
        return f'iter({show(v[1])})'
    if k == 'eq':
        return f'{show(v[1])} == {show(v[2])}'
    if k == 'is_some':
        return f'is_some({show(v[1])})'
    if k == 'try':
        return f'{show(v[1])}?'
    if k == 'uninit':
        return f'?_{v[1]}'
    if k == 'vec':
        return f'vec@{v[2]}'
    if k == 'mut':
        return f'{v[1]}!{v[2]}({", ".join(show(a) for a in v[3])})'
    if k == 'intval':
        return f'int({show(v[1])})'
    return '(' + ' '.join(show(x) for x in v) + ')'
