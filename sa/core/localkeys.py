"""Rename-stable keys for triage tables: a site inside a function is identified by the text of the expression (or of the single
definition of the local it names) with every name bound in that function - parameters, locals, comprehension and loop variables -
masked, so that renaming a local does not orphan a hand-confirmed triage entry."""
from __future__ import annotations

import ast
import copy


def bound_names(fn: ast.AST) -> set[str]:
    out: set[str] = set()
    for n in ast.walk(fn):
        if isinstance(n, ast.Name) and isinstance(n.ctx, (ast.Store, ast.Del)):
            out.add(n.id)
        elif isinstance(n, ast.arg):
            out.add(n.arg)
        elif isinstance(n, ast.ExceptHandler) and n.name:
            out.add(n.name)
        elif isinstance(n, (ast.MatchAs, ast.MatchStar)) and n.name:
            out.add(n.name)
    out.discard('self')
    out.discard('cls')
    return out


class _Mask(ast.NodeTransformer):
    def __init__(self, names):
        self.names = names

    def visit_Name(self, n):
        if n.id in self.names:
            return ast.copy_location(ast.Name(id='_', ctx=n.ctx), n)
        return n


def masked(fn: ast.AST, node: ast.AST) -> str:
    return ast.unparse(_Mask(bound_names(fn)).visit(copy.deepcopy(node)))


def single_def(fn: ast.AST, name: str):
    """the value of the only binding of local `name` in fn (plain / annotated assignment or walrus), else None"""
    defs = []
    for n in ast.walk(fn):
        if isinstance(n, ast.Assign):
            for t in n.targets:
                if isinstance(t, ast.Name) and t.id == name:
                    defs.append(n.value)
                elif any(isinstance(x, ast.Name) and x.id == name and isinstance(x.ctx, ast.Store) for x in ast.walk(t)):
                    defs.append(None)
        elif isinstance(n, ast.AnnAssign) and isinstance(n.target, ast.Name) and n.target.id == name and n.value is not None:
            defs.append(n.value)
        elif isinstance(n, ast.NamedExpr) and n.target.id == name:
            defs.append(n.value)
        elif isinstance(n, (ast.For, ast.comprehension)) and any(isinstance(x, ast.Name) and x.id == name for x in ast.walk(n.target)):
            defs.append(None)
        elif isinstance(n, ast.AugAssign) and isinstance(n.target, ast.Name) and n.target.id == name:
            continue                       # `s |= ..` keeps naming the same container
        elif isinstance(n, ast.arg) and n.arg == name:
            defs.append(None)
    return defs[0] if len(defs) == 1 and defs[0] is not None else None


def stable_key(fn: ast.AST, expr: ast.AST) -> str:
    """`def:<masked defining expression>` for a local with one definition, else `expr:<masked expression>`"""
    if isinstance(expr, ast.Name):
        d = single_def(fn, expr.id)
        if d is not None:
            return 'def:' + masked(fn, d)
    return 'expr:' + masked(fn, expr)
