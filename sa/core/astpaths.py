"""Name-preserving path enumeration over a statement list (syntax level).

pyeval evaluates values and so loses the identity of local containers (`needed_constants` and `needed_metavariables` are both `set()`);
rules that talk about WHICH local is tested or updated use this enumerator instead: conditions stay source text with a polarity,
`and` / `or` / `not` are decomposed by short-circuit, every other statement is an opaque action.  Nested loops are actions (their
bodies are enumerated separately by the caller)."""
from __future__ import annotations

import ast
from dataclasses import dataclass, field


@dataclass
class SPath:
    conds: list[tuple[str, bool]] = field(default_factory=list)
    actions: list[ast.stmt] = field(default_factory=list)
    end: str = 'fall'          # fall | continue | break | return | raise

    def holds(self, src: str) -> bool | None:
        for c, b in self.conds:
            if c == src:
                return b
        return None


def _test(node: ast.expr, want: bool) -> list[list[tuple[str, bool]]]:
    """ways (lists of atomic facts) in which `node` evaluates to `want`"""
    if isinstance(node, ast.UnaryOp) and isinstance(node.op, ast.Not):
        return _test(node.operand, not want)
    if isinstance(node, ast.BoolOp):
        conj = isinstance(node.op, ast.And)
        if conj == want:
            # all operands `want`
            out = [[]]
            for v in node.values:
                out = [a + b for a in out for b in _test(v, want)]
            return out
        # first operand that is `want` decides; the earlier ones are `not want`
        out = []
        prefix = [[]]
        for v in node.values:
            for p in prefix:
                for w in _test(v, want):
                    out.append(p + w)
            prefix = [p + w for p in prefix for w in _test(v, not want)]
        return out
    if isinstance(node, ast.Compare) and len(node.ops) == 1 and isinstance(node.ops[0], (ast.In, ast.NotIn)) \
            and isinstance(node.comparators[0], (ast.Tuple, ast.List, ast.Set)) and node.comparators[0].elts \
            and all(isinstance(x, ast.Constant) for x in node.comparators[0].elts):
        # x in ('a', 'b')  is  x == 'a' or x == 'b'
        alts = ast.BoolOp(op=ast.Or(), values=[ast.Compare(left=node.left, ops=[ast.Eq()], comparators=[x]) for x in node.comparators[0].elts])
        return _test(alts, want if isinstance(node.ops[0], ast.In) else not want)
    if isinstance(node, ast.Compare) and len(node.ops) == 1:
        # emptiness tests on a length have one spelling: `len(x) > 0`
        l, op, r = node.left, node.ops[0], node.comparators[0]

        def is_len(e):
            return isinstance(e, ast.Call) and isinstance(e.func, ast.Name) and e.func.id == 'len' and len(e.args) == 1 and not e.keywords

        def is_int(e, k):
            return isinstance(e, ast.Constant) and type(e.value) is int and e.value == k
        nonempty = None
        if is_len(l) and is_int(r, 0) and isinstance(op, (ast.Eq, ast.NotEq, ast.Gt, ast.LtE)):
            nonempty, subj = isinstance(op, (ast.NotEq, ast.Gt)), l
        elif is_len(l) and is_int(r, 1) and isinstance(op, (ast.GtE, ast.Lt)):
            nonempty, subj = isinstance(op, ast.GtE), l
        elif is_len(r) and is_int(l, 0) and isinstance(op, (ast.Eq, ast.NotEq, ast.Lt, ast.GtE)):
            nonempty, subj = isinstance(op, (ast.NotEq, ast.Lt)), r
        if nonempty is not None:
            return [[(f'{ast.unparse(subj)} > 0', want == nonempty)]]
    if isinstance(node, ast.Compare) and len(node.ops) == 1 and isinstance(node.ops[0], (ast.NotIn, ast.NotEq, ast.IsNot)):
        pos = {ast.NotIn: ast.In, ast.NotEq: ast.Eq, ast.IsNot: ast.Is}[type(node.ops[0])]()
        flipped = ast.Compare(left=node.left, ops=[pos], comparators=node.comparators)
        return [[(ast.unparse(flipped), not want)]]
    return [[(ast.unparse(node), want)]]


def match_as_ifs(m: ast.Match):
    """`match s: case 'a': .. case 'b' | 'c': .. case C(): .. case C(attr=name) [as x]: .. case _: ..` as the equivalent
    if / elif chain on `s == 'a'` / `isinstance(s, C)` (keyword captures become assignments at the head of the arm, keyword
    value sub-patterns become `s.attr == v`); None when a case destructures positionally or binds inside an or-pattern
    (left opaque)"""
    if not isinstance(m.subject, (ast.Name, ast.Attribute)):
        return None
    subj = m.subject

    def one(p_):
        """-> (test | None for always, [binding statements]) or False"""
        if isinstance(p_, ast.MatchValue) and isinstance(p_.value, (ast.Constant, ast.Attribute)):
            return ast.Compare(left=subj, ops=[ast.Eq()], comparators=[p_.value]), []
        if isinstance(p_, ast.MatchSingleton):
            return ast.Compare(left=subj, ops=[ast.Is()], comparators=[ast.Constant(p_.value)]), []
        if isinstance(p_, ast.MatchAs) and p_.pattern is None:
            if p_.name is None:
                return None, []
            return None, [ast.Assign(targets=[ast.Name(id=p_.name, ctx=ast.Store())], value=subj)]
        if isinstance(p_, ast.MatchAs) and p_.pattern is not None:
            r = one(p_.pattern)
            if r is False:
                return False
            return r[0], r[1] + [ast.Assign(targets=[ast.Name(id=p_.name, ctx=ast.Store())], value=subj)]
        if isinstance(p_, ast.MatchClass) and not p_.patterns and isinstance(p_.cls, (ast.Name, ast.Attribute)):
            tests = [ast.Call(func=ast.Name(id='isinstance', ctx=ast.Load()), args=[subj, p_.cls], keywords=[])]
            binds = []
            for attr, sub in zip(p_.kwd_attrs, p_.kwd_patterns):
                field = ast.Attribute(value=subj, attr=attr, ctx=ast.Load())
                if isinstance(sub, ast.MatchAs) and sub.pattern is None:
                    if sub.name is not None:
                        binds.append(ast.Assign(targets=[ast.Name(id=sub.name, ctx=ast.Store())], value=field))
                elif isinstance(sub, ast.MatchValue) and isinstance(sub.value, (ast.Constant, ast.Attribute)):
                    tests.append(ast.Compare(left=field, ops=[ast.Eq()], comparators=[sub.value]))
                elif isinstance(sub, ast.MatchSingleton):
                    tests.append(ast.Compare(left=field, ops=[ast.Is()], comparators=[ast.Constant(sub.value)]))
                else:
                    return False
            return (tests[0] if len(tests) == 1 else ast.BoolOp(op=ast.And(), values=tests)), binds
        return False

    arms = []
    for case in m.cases:
        pats = case.pattern.patterns if isinstance(case.pattern, ast.MatchOr) else [case.pattern]
        tests = []
        binds: list = []
        wild = False
        for p_ in pats:
            r = one(p_)
            if r is False or (r[1] and len(pats) > 1):
                return None
            if r[0] is None:
                wild = True
            else:
                tests.append(r[0])
            binds = r[1]
        # C() | D() is isinstance(s, (C, D))
        if len(tests) > 1 and all(isinstance(t, ast.Call) for t in tests):
            tests = [ast.Call(func=ast.Name(id='isinstance', ctx=ast.Load()),
                              args=[subj, ast.Tuple(elts=[t.args[1] for t in tests], ctx=ast.Load())], keywords=[])]
        test = None if wild else (tests[0] if len(tests) == 1 else ast.BoolOp(op=ast.Or(), values=tests))
        if case.guard is not None:
            if binds:
                return None                      # a guard may read the captures: keep opaque
            test = case.guard if test is None else ast.BoolOp(op=ast.And(), values=[test, case.guard])
        for b_ in binds:
            ast.copy_location(b_, case.pattern)
        arms.append((test, binds + list(case.body), case.pattern))
    tail: list[ast.stmt] = []
    for test, body, at in reversed(arms):
        if test is None:
            tail = list(body)
        else:
            node = ast.If(test=test, body=list(body), orelse=tail)
            ast.copy_location(node, at)
            ast.fix_missing_locations(node)
            tail = [node]
    for st in tail:
        ast.fix_missing_locations(st)
    return tail


def paths(stmts: list[ast.stmt], limit: int = 4096) -> list[SPath]:
    done: list[SPath] = []

    def go(todo: list[ast.stmt], p: SPath):
        if len(done) > limit:
            raise OverflowError('too many paths')
        if not todo:
            done.append(p)
            return
        s, rest = todo[0], todo[1:]
        if isinstance(s, ast.Match):
            chain = match_as_ifs(s)
            if chain is not None:
                go(chain + rest, p)
                return
        if isinstance(s, ast.If):
            for facts in _test(s.test, True):
                if _consistent(p.conds, facts):
                    go(list(s.body) + rest, SPath(p.conds + [f for f in facts if f not in p.conds], list(p.actions), p.end))
            for facts in _test(s.test, False):
                if _consistent(p.conds, facts):
                    go(list(s.orelse) + rest, SPath(p.conds + [f for f in facts if f not in p.conds], list(p.actions), p.end))
            return
        for kind, cls in (('continue', ast.Continue), ('break', ast.Break), ('return', ast.Return), ('raise', ast.Raise)):
            if isinstance(s, cls):
                q = SPath(list(p.conds), list(p.actions) + ([s] if kind in ('return', 'raise') else []), kind)
                done.append(q)
                return
        go(rest, SPath(list(p.conds), list(p.actions) + [s], p.end))

    go(list(stmts), SPath())
    return done


def _consistent(conds, facts) -> bool:
    have = dict(conds)
    for c, b in facts:
        if c in have and have[c] != b:
            return False
        have[c] = b
    return True


def specialise(stmts, subject: str, member: str | None, enum: str):
    """the statements that remain of a dispatch over `subject` (an enum value) when it is known to be `enum.member` (or, for
    member None, none of the members that are tested): `if subject == enum.X` / `!=` / `in (..)` / `not ..` / and / or tests and
    `match subject: case enum.X` arms are decided, everything else is kept.  Statements after a decided unconditional
    return / raise / continue / break are dropped."""
    def val(t):
        if isinstance(t, ast.UnaryOp) and isinstance(t.op, ast.Not):
            v = val(t.operand)
            return None if v is None else (not v)
        if isinstance(t, ast.BoolOp):
            vs = [val(x) for x in t.values]
            if isinstance(t.op, ast.And):
                return False if any(v is False for v in vs) else (True if all(v is True for v in vs) else None)
            return True if any(v is True for v in vs) else (False if all(v is False for v in vs) else None)
        if isinstance(t, ast.Compare) and len(t.ops) == 1:
            l, r, op = t.left, t.comparators[0], t.ops[0]

            def mem(e):
                return e.attr if isinstance(e, ast.Attribute) and ast.unparse(e.value) == enum else None
            if isinstance(op, (ast.Eq, ast.NotEq, ast.Is, ast.IsNot)):
                for a, b in ((l, r), (r, l)):
                    if ast.unparse(a) == subject and mem(b) is not None:
                        eq = mem(b) == member
                        return eq if isinstance(op, (ast.Eq, ast.Is)) else not eq
            if isinstance(op, (ast.In, ast.NotIn)) and ast.unparse(l) == subject and isinstance(r, (ast.Tuple, ast.List, ast.Set)) \
                    and all(mem(e) is not None for e in r.elts):
                inn = member in [mem(e) for e in r.elts]
                return inn if isinstance(op, ast.In) else not inn
        return None

    def go(body):
        out = []
        for s in body:
            if isinstance(s, ast.Match) and ast.unparse(s.subject) == subject:
                chain = match_as_ifs(s)
                if chain is not None:
                    sub = go(chain)
                    out.extend(sub)
                    if sub and isinstance(sub[-1], (ast.Return, ast.Raise, ast.Continue, ast.Break)):
                        return out
                    continue
            if isinstance(s, ast.If):
                v = val(s.test)
                if v is None:
                    node = ast.If(test=s.test, body=go(s.body) or [ast.Pass()], orelse=go(s.orelse))
                    out.append(ast.fix_missing_locations(ast.copy_location(node, s)))
                    continue
                sub = go(s.body if v else s.orelse)
                out.extend(sub)
                if sub and isinstance(sub[-1], (ast.Return, ast.Raise, ast.Continue, ast.Break)):
                    return out
                continue
            out.append(fold(s))
            if isinstance(s, (ast.Return, ast.Raise, ast.Continue, ast.Break)):
                return out
        return out

    def fold(s):
        """comparisons of the subject that stand outside a test (`is_x = subject == enum.X`) are decided as well"""
        if not any(isinstance(n, ast.Compare) and val(n) is not None for n in ast.walk(s)):
            return s
        import copy

        class F(ast.NodeTransformer):
            def visit_Compare(self, n):
                v = val(n)
                if v is None:
                    return self.generic_visit(n)
                return ast.copy_location(ast.Constant(value=v), n)
        return ast.fix_missing_locations(F().visit(copy.deepcopy(s)))
    return go(list(stmts))
