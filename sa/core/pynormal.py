"""Syntax normalisation applied to every module before any rule looks at it: *single-use temporaries are folded back*.

    t = E                      (t assigned once in the function, read once, in the very next statement of the same block,
    S[t]           ==>  S[E]    outside any nested scope, and nothing with a possible side effect is evaluated in S before t)

Whether a sub-expression is given a name before it is used is a matter of style; the rules that read syntax (which local feeds
which call, what is returned, what is appended) should not depend on it.  The fold moves the evaluation of E from the end of one
statement to a point in the next statement before which only names, attributes, constants and the callee expression are
evaluated, so the order of effects is unchanged.  Value-level rules (PyEval) see the same values either way."""
from __future__ import annotations

import ast
import copy

_IMPURE = (ast.Call, ast.Await, ast.Yield, ast.YieldFrom, ast.NamedExpr, ast.ListComp, ast.SetComp, ast.DictComp, ast.GeneratorExp)


def _find_use(stmt: ast.stmt, name: str):
    """-> 'ok' if `name` is read exactly once in stmt, not in a nested scope, and nothing impure is evaluated before that read;
    'no' otherwise"""
    state = {'impure': False, 'found': 0, 'bad': False}

    def expr(e):
        if e is None or state['bad']:
            return
        if isinstance(e, ast.Name):
            if e.id == name:
                if not isinstance(e.ctx, ast.Load):
                    state['bad'] = True
                    return
                state['found'] += 1
                if state['impure']:
                    state['bad'] = True
            return
        if isinstance(e, (ast.Lambda, ast.ListComp, ast.SetComp, ast.DictComp, ast.GeneratorExp)):
            if any(isinstance(x, ast.Name) and x.id == name for x in ast.walk(e)):
                state['bad'] = True          # used inside a nested scope / evaluated zero or many times
            state['impure'] = True
            return
        if isinstance(e, ast.BoolOp):
            expr(e.values[0])
            for v in e.values[1:]:
                if any(isinstance(x, ast.Name) and x.id == name for x in ast.walk(v)):
                    state['bad'] = True      # conditionally evaluated
                    return
            state['impure'] = state['impure'] or any(isinstance(x, _IMPURE) for v in e.values[1:] for x in ast.walk(v))
            return
        if isinstance(e, ast.IfExp):
            expr(e.test)
            for v in (e.body, e.orelse):
                if any(isinstance(x, ast.Name) and x.id == name for x in ast.walk(v)):
                    state['bad'] = True
                    return
            state['impure'] = True
            return
        if isinstance(e, ast.Call):
            expr(e.func)
            for a in e.args:
                expr(a.value if isinstance(a, ast.Starred) else a)
            for k in e.keywords:
                expr(k.value)
            state['impure'] = True
            return
        if isinstance(e, ast.Dict):
            for k, v in zip(e.keys, e.values):
                expr(k)
                expr(v)
            return
        if isinstance(e, (ast.Await, ast.Yield, ast.YieldFrom, ast.NamedExpr)):
            if any(isinstance(x, ast.Name) and x.id == name for x in ast.walk(e)):
                state['bad'] = True
            state['impure'] = True
            return
        for ch in ast.iter_child_nodes(e):
            if isinstance(ch, ast.expr):
                expr(ch)
            elif isinstance(ch, (ast.keyword,)):
                expr(ch.value)
            elif isinstance(ch, ast.slice if hasattr(ast, 'slice') else ()):
                pass

    if isinstance(stmt, ast.Expr):
        expr(stmt.value)
    elif isinstance(stmt, ast.Return):
        expr(stmt.value)
    elif isinstance(stmt, ast.Assign) and all(isinstance(t, ast.Name) or (isinstance(t, (ast.Tuple, ast.List)) and all(isinstance(x, ast.Name) for x in t.elts))
                                               for t in stmt.targets):
        expr(stmt.value)
    elif isinstance(stmt, ast.AnnAssign) and isinstance(stmt.target, ast.Name) and stmt.value is not None:
        expr(stmt.value)
    elif isinstance(stmt, ast.AugAssign) and isinstance(stmt.target, ast.Name):
        expr(stmt.value)
    elif isinstance(stmt, (ast.If, ast.While)):
        # only the test is evaluated next; a use in the body is conditional
        expr(stmt.test)
        if any(isinstance(x, ast.Name) and x.id == name for b in (stmt.body, stmt.orelse) for s in b for x in ast.walk(s)):
            state['bad'] = True
    elif isinstance(stmt, (ast.For, ast.AsyncFor)):
        # the iterable is evaluated once, before the loop
        expr(stmt.iter)
        if any(isinstance(x, ast.Name) and x.id == name for part in ([stmt.target], stmt.body, stmt.orelse) for s in part for x in ast.walk(s)):
            state['bad'] = True
    elif isinstance(stmt, ast.Assert):
        state['bad'] = True                  # asserts vanish under -O: never fold into them
    else:
        state['bad'] = True
    return 'ok' if (state['found'] == 1 and not state['bad']) else 'no'


class _Subst(ast.NodeTransformer):
    def __init__(self, name, value):
        self.name, self.value = name, value

    def visit_Name(self, n):
        if n.id == self.name and isinstance(n.ctx, ast.Load):
            return ast.copy_location(copy.deepcopy(self.value), n)
        return n


def _counts(fn):
    stores: dict[str, int] = {}
    loads: dict[str, int] = {}
    for n in ast.walk(fn):
        if isinstance(n, ast.Name):
            d = stores if isinstance(n.ctx, (ast.Store, ast.Del)) else loads
            d[n.id] = d.get(n.id, 0) + 1
        elif isinstance(n, ast.arg):
            stores[n.arg] = stores.get(n.arg, 0) + 1
        elif isinstance(n, ast.ExceptHandler) and n.name:
            stores[n.name] = stores.get(n.name, 0) + 1
        elif isinstance(n, (ast.MatchAs, ast.MatchStar)) and n.name:
            stores[n.name] = stores.get(n.name, 0) + 1
        elif isinstance(n, (ast.Global, ast.Nonlocal)):
            for x in n.names:
                stores[x] = stores.get(x, 0) + 2
    return stores, loads


def _fold_block(stmts, stores, loads) -> tuple[list, int]:
    out, i, n = [], 0, 0
    while i < len(stmts):
        st = stmts[i]
        if i + 1 < len(stmts) and isinstance(st, ast.Assign) and len(st.targets) == 1 and isinstance(st.targets[0], ast.Name):
            t = st.targets[0].id
            if stores.get(t, 0) == 1 and loads.get(t, 0) == 1 and _find_use(stmts[i + 1], t) == 'ok':
                stmts[i + 1] = ast.fix_missing_locations(_Subst(t, st.value).visit(stmts[i + 1]))
                n += 1
                i += 1
                continue
        out.append(st)
        i += 1
    return out, n


def fold_temporaries(tree: ast.Module) -> int:
    """fold single-use temporaries in every function of the module (in place); -> number of folds"""
    total = 0
    for fn in [x for x in ast.walk(tree) if isinstance(x, (ast.FunctionDef, ast.AsyncFunctionDef))]:
        for _round in range(500):
            stores, loads = _counts(fn)
            changed = 0
            for node in ast.walk(fn):
                if node is not fn and isinstance(node, (ast.FunctionDef, ast.AsyncFunctionDef, ast.ClassDef)):
                    continue
                for fld in ('body', 'orelse', 'finalbody'):
                    v = getattr(node, fld, None)
                    if isinstance(v, list) and v and isinstance(v[0], ast.stmt):
                        new, k = _fold_block(v, stores, loads)
                        if k:
                            setattr(node, fld, new)
                            changed += k
                            break
                if changed:
                    break                      # recount after every fold: the counts of the folded expression's names moved
            total += changed
            if not changed:
                break
    return total


# ----------------------------------------------------------------------------------------------------------------------------
# `v = C.unwrap(X); assert v is not None`  ->  `v = C.extract(X)`

def checked_unwrap_to_extract(tree: ast.Module) -> int:
    """the project's `extract` is `unwrap` followed by an assertion that the result is not None (decided by C07's
    destructuring-raises rule on Pattern.extract itself); the same two steps written out at a call site are read as the call of
    `extract`, so that rules which know `C.extract(X)` see one spelling.  Only the adjacent pair `v = <C>.unwrap(<X>)` /
    `assert v is not None[, msg]` with a plain name v."""
    count = 0
    defining = {id(n) for f in ast.walk(tree) if isinstance(f, ast.FunctionDef) and f.name == 'extract' for n in ast.walk(f)}
    for node in ast.walk(tree):
        if id(node) in defining:
            continue                                   # the definition of extract itself
        for fld in ('body', 'orelse', 'finalbody'):
            blk = getattr(node, fld, None)
            if not (isinstance(blk, list) and blk and isinstance(blk[0], ast.stmt)):
                continue
            i = 0
            while i + 1 < len(blk):
                a, chk = blk[i], blk[i + 1]
                i += 1
                tgt = a.targets[0] if isinstance(a, ast.Assign) and len(a.targets) == 1 else (a.target if isinstance(a, ast.AnnAssign) else None)
                val = getattr(a, 'value', None)
                if not (isinstance(tgt, ast.Name) and isinstance(val, ast.Call) and isinstance(val.func, ast.Attribute) and val.func.attr == 'unwrap'
                        and isinstance(val.func.value, ast.Name) and len(val.args) == 1 and not val.keywords and isinstance(chk, ast.Assert)):
                    continue
                t = chk.test
                if not (isinstance(t, ast.Compare) and len(t.ops) == 1 and isinstance(t.ops[0], ast.IsNot) and isinstance(t.left, ast.Name)
                        and t.left.id == tgt.id and isinstance(t.comparators[0], ast.Constant) and t.comparators[0].value is None):
                    continue
                val.func.attr = 'extract'
                del blk[i]
                count += 1
    return count


# ----------------------------------------------------------------------------------------------------------------------------
# `for v in S: if v == X: return True` / `return False`  ->  `return X in S`

def search_loop_to_membership(tree: ast.Module) -> int:
    """a loop that answers True at the first element equal to X and False after the loop is the membership test `X in S` (False /
    True: `X not in S`); X must not mention the loop variable and the loop must have no else"""
    count = 0
    for node in ast.walk(tree):
        for fld in ('body', 'orelse', 'finalbody'):
            blk = getattr(node, fld, None)
            if not (isinstance(blk, list) and blk and isinstance(blk[0], ast.stmt)):
                continue
            i = 0
            while i + 1 < len(blk):
                lp, ret = blk[i], blk[i + 1]
                i += 1
                if not (isinstance(lp, ast.For) and not lp.orelse and isinstance(lp.target, ast.Name) and len(lp.body) == 1
                        and isinstance(ret, ast.Return) and isinstance(ret.value, ast.Constant) and isinstance(ret.value.value, bool)):
                    continue
                iff = lp.body[0]
                if not (isinstance(iff, ast.If) and not iff.orelse and len(iff.body) == 1 and isinstance(iff.body[0], ast.Return)
                        and isinstance(iff.body[0].value, ast.Constant) and iff.body[0].value.value is (not ret.value.value)):
                    continue
                t = iff.test
                if not (isinstance(t, ast.Compare) and len(t.ops) == 1 and isinstance(t.ops[0], ast.Eq)):
                    continue
                v = lp.target.id
                sides = [t.left, t.comparators[0]]
                other = [x for x in sides if not (isinstance(x, ast.Name) and x.id == v)]
                if len(other) != 1 or any(isinstance(n, ast.Name) and n.id == v for n in ast.walk(other[0])):
                    continue
                if any(isinstance(n, (ast.Call, ast.Await, ast.Yield, ast.YieldFrom, ast.NamedExpr)) for n in ast.walk(other[0])):
                    continue                                   # X is evaluated once by `in`, once per element by the loop
                found = iff.body[0].value.value
                test = ast.Compare(left=other[0], ops=[ast.In() if found else ast.NotIn()], comparators=[lp.iter])
                new = ast.copy_location(ast.Return(value=test), lp)
                ast.fix_missing_locations(new)
                blk[i - 1:i + 1] = [new]
                count += 1
    return count


# ----------------------------------------------------------------------------------------------------------------------------
# `x = []; for t in IT: [if c:] x.append(E)`  ->  `x = [E for t in IT if c]`

def loop_to_comprehension(tree: ast.Module) -> int:
    """an empty list followed at once by a loop whose whole body is one (possibly guarded, else-less) append to it is the list
    comprehension with the same generator, guards and element.  Not when the loop variables are read after the loop (a
    comprehension does not leak them), when the list occurs in the iterable / guards / element, or when the loop has an else."""
    count = 0
    for fn in [x for x in ast.walk(tree) if isinstance(x, (ast.FunctionDef, ast.AsyncFunctionDef))]:
        for node in ast.walk(fn):
            for fld in ('body', 'orelse', 'finalbody'):
                blk = getattr(node, fld, None)
                if not (isinstance(blk, list) and blk and isinstance(blk[0], ast.stmt)):
                    continue
                i = 0
                while i + 1 < len(blk):
                    a, lp = blk[i], blk[i + 1]
                    i += 1
                    tgt = a.targets[0] if isinstance(a, ast.Assign) and len(a.targets) == 1 else (a.target if isinstance(a, ast.AnnAssign) else None)
                    val = getattr(a, 'value', None)
                    if not (isinstance(tgt, ast.Name) and isinstance(val, ast.List) and not val.elts and isinstance(lp, ast.For) and not lp.orelse):
                        continue
                    x = tgt.id
                    conds = []
                    body = lp.body
                    while len(body) == 1 and isinstance(body[0], ast.If) and not body[0].orelse:
                        conds.append(body[0].test)
                        body = body[0].body
                    if not (len(body) == 1 and isinstance(body[0], ast.Expr) and isinstance(body[0].value, ast.Call)):
                        continue
                    c = body[0].value
                    if not (isinstance(c.func, ast.Attribute) and c.func.attr == 'append' and isinstance(c.func.value, ast.Name)
                            and c.func.value.id == x and len(c.args) == 1 and not c.keywords and not isinstance(c.args[0], ast.Starred)):
                        continue
                    parts = [lp.iter, c.args[0]] + conds
                    if any(isinstance(n, ast.Name) and n.id == x for p_ in parts for n in ast.walk(p_)):
                        continue
                    if any(isinstance(n, (ast.Yield, ast.YieldFrom, ast.Await, ast.NamedExpr)) for p_ in parts for n in ast.walk(p_)):
                        continue
                    loop_vars = {n.id for n in ast.walk(lp.target) if isinstance(n, ast.Name)}
                    if not all(isinstance(n, (ast.Name, ast.Tuple, ast.List, ast.Starred)) or isinstance(n, ast.expr_context) for n in ast.walk(lp.target)):
                        continue
                    inside = {id(n) for n in ast.walk(lp)}
                    if any(isinstance(n, ast.Name) and n.id in loop_vars and id(n) not in inside and n.lineno >= lp.lineno for n in ast.walk(fn)):
                        continue                                   # a loop variable is used after (or rebound later in) the function
                    comp = ast.ListComp(elt=c.args[0], generators=[ast.comprehension(target=lp.target, iter=lp.iter, ifs=conds, is_async=0)])
                    a.value = ast.copy_location(comp, lp)
                    del blk[i]
                    ast.fix_missing_locations(a)
                    count += 1
    return count


# ----------------------------------------------------------------------------------------------------------------------------
# `while True: v = E; if v is None: break; ..`  ->  `while (v := E) is not None: ..`

def while_true_to_test(tree: ast.Module) -> int:
    """a loop that computes a value first and leaves when it fails a test is the loop with that test as its condition"""
    count = 0
    for w in [n for n in ast.walk(tree) if isinstance(n, ast.While)]:
        if not (isinstance(w.test, ast.Constant) and w.test.value is True and not w.orelse and len(w.body) >= 2):
            continue
        a, g = w.body[0], w.body[1]
        if not (isinstance(a, ast.Assign) and len(a.targets) == 1 and isinstance(a.targets[0], ast.Name)):
            continue
        v = a.targets[0].id
        if not (isinstance(g, ast.If) and not g.orelse and len(g.body) == 1 and isinstance(g.body[0], ast.Break)):
            continue
        t = g.test
        uses = [n for n in ast.walk(t) if isinstance(n, ast.Name) and n.id == v]
        if len(uses) != 1:
            continue
        walrus = ast.NamedExpr(target=ast.Name(id=v, ctx=ast.Store()), value=a.value)

        class R(ast.NodeTransformer):
            def visit_Name(self, n):
                return walrus if n is uses[0] else n
        t2 = R().visit(t)
        if isinstance(t2, ast.Compare) and len(t2.ops) == 1 and isinstance(t2.ops[0], (ast.Is, ast.IsNot, ast.Eq, ast.NotEq)):
            flip = {ast.Is: ast.IsNot, ast.IsNot: ast.Is, ast.Eq: ast.NotEq, ast.NotEq: ast.Eq}[type(t2.ops[0])]
            new_test = ast.Compare(left=t2.left, ops=[flip()], comparators=t2.comparators)
        elif isinstance(t2, ast.UnaryOp) and isinstance(t2.op, ast.Not):
            new_test = t2.operand
        else:
            new_test = ast.UnaryOp(op=ast.Not(), operand=t2)
        w.test = ast.copy_location(new_test, w.test)
        w.body = w.body[2:] or [ast.copy_location(ast.Pass(), w)]
        ast.fix_missing_locations(w)
        count += 1
    return count


# ----------------------------------------------------------------------------------------------------------------------------
# nested procedures called as statements -> their bodies in place

def _contains_return(st) -> bool:
    if isinstance(st, (ast.FunctionDef, ast.AsyncFunctionDef, ast.ClassDef)):
        return False                              # the returns of a nested definition are its own
    stack = [st]
    while stack:
        n = stack.pop()
        if isinstance(n, ast.Return):
            return True
        for c in ast.iter_child_nodes(n):
            if not isinstance(c, (ast.FunctionDef, ast.AsyncFunctionDef, ast.Lambda, ast.ClassDef)):
                stack.append(c)
    return False


def _eliminate_returns(stmts):
    """the statement list with every bare `return` removed by restructuring: what follows an `if` that may return moves into its
    branches.  None when a return sits inside a loop / try / with / match (not restructured)."""
    import copy
    out = []
    for i, st in enumerate(stmts):
        if isinstance(st, ast.Return):
            return out
        if _contains_return(st):
            if not isinstance(st, ast.If):
                return None
            rest = stmts[i + 1:]
            b = _eliminate_returns(list(st.body) + copy.deepcopy(rest))
            o = _eliminate_returns(list(st.orelse) + copy.deepcopy(rest))
            if b is None or o is None:
                return None
            out.append(ast.copy_location(ast.If(test=st.test, body=b or [ast.copy_location(ast.Pass(), st)], orelse=o), st))
            return out
        out.append(st)
    return out


def inline_local_procedures(tree: ast.Module) -> int:
    """def f(..):
           def step(x): <body that returns no value>
           ... step(E) ...              every mention of `step` is a call statement with positional arguments

    is f with `x = E; <body>` in place of each call (early `return`s restructured into if / else), and without the nested def.
    Names the procedure binds that are also used by f are renamed apart.  Functions that return a value, are passed around, recurse,
    or return from inside a loop stay as they are.  -> number of calls inlined"""
    import copy
    count = 0
    for fn in [x for x in ast.walk(tree) if isinstance(x, (ast.FunctionDef, ast.AsyncFunctionDef))]:
        changed = True
        rounds = 0
        while changed and rounds < 6:
            changed = False
            rounds += 1
            for g in [x for x in fn.body if isinstance(x, ast.FunctionDef)]:
                a = g.args
                if g.decorator_list or a.vararg or a.kwarg or a.kwonlyargs or a.defaults or a.posonlyargs:
                    continue
                inside_g = {id(y) for y in ast.walk(g)}
                if any(isinstance(n, (ast.Yield, ast.YieldFrom, ast.Await)) for n in ast.walk(g)):
                    continue
                if any(isinstance(n, ast.Name) and n.id == g.name for n in ast.walk(g)):
                    continue
                rets = [n for n in ast.walk(g) if isinstance(n, ast.Return)]
                inner_defs = [n for n in ast.walk(g) if n is not g and isinstance(n, (ast.FunctionDef, ast.Lambda, ast.ClassDef))]
                own_rets = [r for r in rets if not any(any(r is y for y in ast.walk(d)) for d in inner_defs)]
                if any(r.value is not None and not (isinstance(r.value, ast.Constant) and r.value.value is None) for r in own_rets):
                    continue
                body0 = [st for st in g.body if not (isinstance(st, ast.Expr) and isinstance(st.value, ast.Constant))]
                body0 = [st for st in body0 if not isinstance(st, (ast.Nonlocal, ast.Global))]
                declared = {nm for n in ast.walk(g) if isinstance(n, (ast.Nonlocal, ast.Global)) for nm in n.names}
                flat = _eliminate_returns(copy.deepcopy(body0))
                if flat is None:
                    continue
                mentions = [n for n in ast.walk(fn) if isinstance(n, ast.Name) and n.id == g.name and id(n) not in inside_g]
                # every mention must be the callee of a call statement
                sites = []
                for node in ast.walk(fn):
                    if id(node) in inside_g:
                        continue
                    for fld in ('body', 'orelse', 'finalbody'):
                        blk = getattr(node, fld, None)
                        if isinstance(blk, list):
                            for st in blk:
                                if isinstance(st, ast.Expr) and isinstance(st.value, ast.Call) and any(st.value.func is m for m in mentions):
                                    sites.append((node, blk, st))
                    if isinstance(node, ast.Try):
                        for h in node.handlers:
                            for st in h.body:
                                if isinstance(st, ast.Expr) and isinstance(st.value, ast.Call) and any(st.value.func is m for m in mentions):
                                    sites.append((h, h.body, st))
                    if isinstance(node, ast.Match):
                        for c in node.cases:
                            for st in c.body:
                                if isinstance(st, ast.Expr) and isinstance(st.value, ast.Call) and any(st.value.func is m for m in mentions):
                                    sites.append((c, c.body, st))
                if not mentions or len(sites) != len(mentions):
                    continue
                if any(st.value.keywords or any(isinstance(x, ast.Starred) for x in st.value.args) or len(st.value.args) != len(a.args)
                       for _n, _b, st in sites):
                    continue
                # a site inside another nested function: fine unless the procedure assigns variables of f (they would become that
                # function's locals)
                others = [x for x in ast.walk(fn) if isinstance(x, (ast.FunctionDef, ast.Lambda)) and x is not fn and x is not g and id(x) not in inside_g]
                in_other = any(any(st is y for y in ast.walk(o)) for o in others for _n, _b, st in sites)
                bound = {n.id for n in ast.walk(g) if isinstance(n, ast.Name) and isinstance(n.ctx, (ast.Store, ast.Del))} | {x.arg for x in a.args}
                if in_other and declared:
                    continue
                outside = {n.id for n in ast.walk(fn) if isinstance(n, ast.Name) and id(n) not in inside_g}
                outside |= {x.arg for x in fn.args.posonlyargs + fn.args.args + fn.args.kwonlyargs}
                rename = {nm: f'{nm}__{g.name}' for nm in (bound - declared) & outside}

                class R(ast.NodeTransformer):
                    def visit_Name(self, n):
                        if n.id in rename:
                            n.id = rename[n.id]
                        return n

                    def visit_FunctionDef(self, n):
                        return n

                    visit_Lambda = visit_ClassDef = visit_FunctionDef

                    def visit_Nonlocal(self, n):
                        return ast.copy_location(ast.Pass(), n)

                    visit_Global = visit_Nonlocal
                stored_in_g = {n.id for n in ast.walk(g) if isinstance(n, ast.Name) and isinstance(n.ctx, (ast.Store, ast.Del))}

                def simple(e):
                    return isinstance(e, ast.Name) or isinstance(e, ast.Attribute) and simple(e.value)
                for _node, blk, st in sites:
                    # a parameter that is only read, bound to a plain name / attribute chain the body does not rebind: the argument itself
                    direct = {}
                    for x, v in zip(a.args, st.value.args):
                        if x.arg not in stored_in_g and simple(v) and not ({n.id for n in ast.walk(v) if isinstance(n, ast.Name)} & stored_in_g):
                            direct[x.arg] = v

                    class D(ast.NodeTransformer):
                        def visit_Name(self, n):
                            if n.id in direct and isinstance(n.ctx, ast.Load):
                                return ast.copy_location(copy.deepcopy(direct[n.id]), n)
                            return n

                        def visit_FunctionDef(self, n):
                            return n

                        visit_Lambda = visit_ClassDef = visit_FunctionDef
                    full = dict(rename)
                    for k in direct:
                        rename.pop(k, None)               # (R reads `rename`) parameters replaced by their arguments keep their names until then
                    body = [D().visit(R().visit(x)) for x in copy.deepcopy(flat)]
                    rename.clear()
                    rename.update(full)
                    binds = [ast.copy_location(ast.Assign(targets=[ast.Name(id=rename.get(x.arg, x.arg), ctx=ast.Store())], value=v), st)
                             for x, v in zip(a.args, st.value.args) if x.arg not in direct]
                    i = next(k for k, y in enumerate(blk) if y is st)
                    blk[i:i + 1] = (binds + body) or [ast.copy_location(ast.Pass(), st)]
                    count += 1
                fn.body = [x for x in fn.body if x is not g]
                ast.fix_missing_locations(fn)
                changed = True
                break
    return count


# ----------------------------------------------------------------------------------------------------------------------------
# `x = helper(args)` -> the helper's body computing x in place (a copy of the function; used by rules that relate two values built
# in one function and must see through a split into helper functions)

def _assign_returns(stmts, target: str):
    """the statement list with `return E` replaced by `target = E` (what follows an `if` that returns moves into its branches);
    None when a return sits inside a loop / try / with / match"""
    import copy
    out = []
    for i, st in enumerate(stmts):
        if isinstance(st, ast.Return):
            val = st.value if st.value is not None else ast.Constant(None)
            out.append(ast.copy_location(ast.Assign(targets=[ast.Name(id=target, ctx=ast.Store())], value=val), st))
            return out
        if _contains_return(st):
            if not isinstance(st, ast.If):
                return None
            rest = stmts[i + 1:]
            b = _assign_returns(list(st.body) + copy.deepcopy(rest), target)
            o = _assign_returns(list(st.orelse) + copy.deepcopy(rest), target)
            if b is None or o is None:
                return None
            out.append(ast.copy_location(ast.If(test=st.test, body=b or [ast.copy_location(ast.Pass(), st)], orelse=o), st))
            return out
        out.append(st)
    return out


def expand_assigned_calls(fn: ast.FunctionDef, lookup, rounds: int = 2) -> ast.FunctionDef:
    """a copy of `fn` in which every statement `x = h(args)` whose callee `lookup(name)` resolves to a plain function is replaced by
    h's body with its parameters bound and its `return E` turned into `x = E`.  Locals of h are renamed apart."""
    import copy
    g0 = copy.deepcopy(fn)
    # calls of such helpers nested in a statement (`return N(a, h1(x), h2(y))`) are first bound to temporaries, left to right
    k = [0]
    _expand_prebind(g0, fn, lookup, k)
    ast.fix_missing_locations(g0)
    return _expand_rounds(g0, fn, lookup, rounds, k)


def _expand_prebind(g0, fn, lookup, k):
    for holder in ast.walk(g0):
        for fld in ('body', 'orelse', 'finalbody'):
            blk = getattr(holder, fld, None)
            if not (isinstance(blk, list) and blk and isinstance(blk[0], ast.stmt)):
                continue
            j = 0
            while j < len(blk):
                st = blk[j]
                j += 1
                if not isinstance(st, (ast.Return, ast.Assign, ast.AnnAssign, ast.Expr)) or getattr(st, 'value', None) is None:
                    continue
                top = st.value
                pre = []

                class H(ast.NodeTransformer):
                    def visit_Call(self, n):
                        self.generic_visit(n)
                        if n is not top and isinstance(n.func, ast.Name) and lookup(n.func.id) is not None and lookup(n.func.id) is not fn:
                            tmp = f'h{k[0]}_'
                            k[0] += 1
                            pre.append(ast.copy_location(ast.Assign(targets=[ast.Name(id=tmp, ctx=ast.Store())], value=n), st))
                            return ast.copy_location(ast.Name(id=tmp, ctx=ast.Load()), n)
                        return n

                    def visit_Lambda(self, n):
                        return n

                    visit_ListComp = visit_SetComp = visit_DictComp = visit_GeneratorExp = visit_IfExp = visit_BoolOp = visit_Lambda
                st.value = H().visit(st.value)
                # `a, b = h(..)`: the result is bound to a temporary first, then unpacked
                if isinstance(st, ast.Assign) and len(st.targets) == 1 and isinstance(st.targets[0], (ast.Tuple, ast.List)) \
                        and isinstance(top, ast.Call) and st.value is top and isinstance(top.func, ast.Name) \
                        and lookup(top.func.id) is not None and lookup(top.func.id) is not fn:
                    tmp = f'h{k[0]}_'
                    k[0] += 1
                    pre.append(ast.copy_location(ast.Assign(targets=[ast.Name(id=tmp, ctx=ast.Store())], value=top), st))
                    st.value = ast.copy_location(ast.Name(id=tmp, ctx=ast.Load()), top)
                if pre:
                    blk[j - 1:j - 1] = pre
                    j += len(pre)


def _expand_rounds(g0, fn, lookup, rounds, k):
    import copy
    for _round in range(rounds):
        changed = False
        if _round:
            _expand_prebind(g0, fn, lookup, k)                          # bodies written out in the last round bring their own calls
            ast.fix_missing_locations(g0)
        for holder in ast.walk(g0):
            for fld in ('body', 'orelse', 'finalbody'):
                blk = getattr(holder, fld, None)
                if not (isinstance(blk, list) and blk and isinstance(blk[0], ast.stmt)):
                    continue
                i = 0
                while i < len(blk):
                    st = blk[i]
                    i += 1
                    tgt = st.targets[0] if isinstance(st, ast.Assign) and len(st.targets) == 1 else (st.target if isinstance(st, ast.AnnAssign) else None)
                    call = getattr(st, 'value', None)
                    if not (isinstance(tgt, ast.Name) and isinstance(call, ast.Call) and isinstance(call.func, ast.Name)):
                        continue
                    h = lookup(call.func.id)
                    if h is None or h is fn or h.decorator_list or h.args.vararg or h.args.kwarg or h.args.posonlyargs:
                        continue
                    if any(isinstance(n, (ast.Yield, ast.YieldFrom, ast.Await)) for n in ast.walk(h)):
                        continue
                    if any(isinstance(n, ast.Name) and n.id == h.name for n in ast.walk(h)):
                        continue
                    if call.keywords and any(k.arg is None for k in call.keywords) or any(isinstance(a, ast.Starred) for a in call.args):
                        continue
                    params = [a.arg for a in h.args.args]
                    bound = {}
                    for pn, a in zip(params, call.args):
                        bound[pn] = a
                    for k in call.keywords:
                        bound[k.arg] = k.value
                    nd = len(h.args.defaults)
                    for pn, dflt in zip(params[len(params) - nd:], h.args.defaults):
                        bound.setdefault(pn, dflt)
                    if set(bound) != set(params) or len(call.args) > len(params):
                        continue
                    body0 = [x for x in h.body if not (isinstance(x, ast.Expr) and isinstance(x.value, ast.Constant))]
                    flat = _assign_returns(copy.deepcopy(body0), tgt.id)
                    if flat is None:
                        continue
                    stored = {n.id for n in ast.walk(h) if isinstance(n, ast.Name) and isinstance(n.ctx, (ast.Store, ast.Del))}
                    outside = {n.id for n in ast.walk(g0) if isinstance(n, ast.Name)} | {a.arg for a in g0.args.args}

                    def simple(e):
                        return isinstance(e, (ast.Name, ast.Constant)) or isinstance(e, ast.Attribute) and simple(e.value)
                    direct = {pn: v for pn, v in bound.items() if pn not in stored and simple(v)
                              and not ({n.id for n in ast.walk(v) if isinstance(n, ast.Name)} & stored)}
                    rename = {nm: f'{nm}__{h.name}' for nm in (stored | set(params)) - set(direct) if nm in outside and nm != tgt.id}

                    class R(ast.NodeTransformer):
                        def visit_Name(self, n):
                            if n.id in direct and isinstance(n.ctx, ast.Load):
                                return ast.copy_location(copy.deepcopy(direct[n.id]), n)
                            if n.id in rename:
                                n.id = rename[n.id]
                            return n

                        def visit_FunctionDef(self, n):
                            return n

                        visit_Lambda = visit_ClassDef = visit_FunctionDef
                    # the result variable of the caller must not be renamed / captured: its assignments were just created
                    body = [R().visit(x) for x in flat]
                    binds = [ast.copy_location(ast.Assign(targets=[ast.Name(id=rename.get(pn, pn), ctx=ast.Store())], value=v), st)
                             for pn, v in bound.items() if pn not in direct]
                    blk[i - 1:i] = binds + body
                    i += len(binds) + len(body) - 1
                    changed = True
        ast.fix_missing_locations(g0)
        if not changed:
            break
    return g0


# ----------------------------------------------------------------------------------------------------------------------------
# an accessor's body written out in a sibling method -> the accessor

def outline_accessors(tree: ast.Module) -> int:
    """class C:
           def m(self): return <call expression over self only>          (no decorator, no other parameter)
           def other(self, ..): ... <the same expression> ...

    the expression inside the other methods of C is `self.m()` by the definition of m (C has no subclass in the module that overrides m):
    it is rewritten so, and the rules that know `self.m()` (Instantiate.simplify) see one spelling whether the project calls the
    accessor or writes its body out.  -> number of occurrences rewritten"""
    count = 0
    classes = [n for n in ast.walk(tree) if isinstance(n, ast.ClassDef)]
    for cls in classes:
        overridden = set()
        for other in classes:
            if other is not cls and any(isinstance(b, ast.Name) and b.id == cls.name for b in other.bases):
                overridden |= {f.name for f in other.body if isinstance(f, ast.FunctionDef)}
        for m in [f for f in cls.body if isinstance(f, ast.FunctionDef)]:
            body = [st for st in m.body if not (isinstance(st, ast.Expr) and isinstance(st.value, ast.Constant))]
            if m.decorator_list or m.name in overridden or m.name.startswith('__') or len(body) != 1 or not isinstance(body[0], ast.Return) \
                    or not isinstance(body[0].value, ast.Call):
                continue
            a = m.args
            if len(a.args) != 1 or a.posonlyargs or a.kwonlyargs or a.vararg or a.kwarg:
                continue
            selfname = a.args[0].arg
            E = body[0].value
            names = {n.id for n in ast.walk(E) if isinstance(n, ast.Name)}
            if names != {selfname}:
                continue
            if isinstance(E.func, ast.Attribute) and isinstance(E.func.value, ast.Name):
                continue                       # `return self.other(..)`: an alias of another method, nothing to outline
            if any(isinstance(n, ast.Call) and isinstance(n.func, ast.Attribute) and isinstance(n.func.value, ast.Name)
                   and n.func.value.id == selfname and n.func.attr == m.name for n in ast.walk(E)):
                continue
            dump = ast.dump(E)

            class R(ast.NodeTransformer):
                def __init__(self, sname):
                    self.sname = sname
                    self.n = 0

                def visit_Call(self, n):
                    if ast.dump(n) == dump.replace(f"id='{selfname}'", f"id='{self.sname}'"):
                        self.n += 1
                        return ast.copy_location(ast.Call(func=ast.Attribute(value=ast.Name(id=self.sname, ctx=ast.Load()), attr=m.name,
                                                                             ctx=ast.Load()), args=[], keywords=[]), n)
                    return self.generic_visit(n)
            for other in [f for f in cls.body if isinstance(f, ast.FunctionDef) and f is not m]:
                if not other.args.args or any(ast.unparse(d) in ('staticmethod', 'classmethod') for d in other.decorator_list):
                    continue
                sname = other.args.args[0].arg
                if any(isinstance(n, ast.Name) and n.id == sname and isinstance(n.ctx, ast.Store) for n in ast.walk(other)):
                    continue
                r = R(sname)
                other.body = [r.visit(st) for st in other.body]
                if r.n:
                    ast.fix_missing_locations(other)
                    count += r.n
    return count


# ----------------------------------------------------------------------------------------------------------------------------
# try: D[k] except KeyError  ->  if k in D

def eafp_to_lbyl(tree: ast.Module) -> int:
    """        try:                                   if k in D:
                   <one simple statement using D[k]>      <that statement>
               except KeyError:                        else:
                   <handler>                               <handler>

    when D and k are plain names / attribute chains (evaluating them raises nothing), D[k] is the only subscript, call-free
    statement body, the handler does not bind the exception and there is no else / finally: the lookup is the only possible source
    of the KeyError.  (A mapping with __missing__ would differ; the tables concerned are plain dicts.)  -> number rewritten"""
    count = 0

    def simple(e):
        return isinstance(e, ast.Name) or isinstance(e, ast.Attribute) and simple(e.value)

    for node in ast.walk(tree):
        for fld in ('body', 'orelse', 'finalbody'):
            blk = getattr(node, fld, None)
            if not (isinstance(blk, list) and blk and isinstance(blk[0], ast.stmt)):
                continue
            for i, st in enumerate(blk):
                if not (isinstance(st, ast.Try) and len(st.body) == 1 and len(st.handlers) == 1 and not st.orelse and not st.finalbody):
                    continue
                h = st.handlers[0]
                if not (isinstance(h.type, ast.Name) and h.type.id == 'KeyError' and h.name is None):
                    continue
                b = st.body[0]
                if not isinstance(b, (ast.Return, ast.Assign, ast.AnnAssign, ast.Expr)):
                    continue
                subs = [n for n in ast.walk(b) if isinstance(n, ast.Subscript) and isinstance(n.ctx, ast.Load)]
                if len(subs) != 1 or not simple(subs[0].value) or not simple(subs[0].slice):
                    continue
                if any(isinstance(n, (ast.Call, ast.Await, ast.Yield, ast.YieldFrom)) for n in ast.walk(b)):
                    continue
                if any(isinstance(n, ast.Subscript) and isinstance(n.ctx, ast.Store) for n in ast.walk(b)):
                    continue
                test = ast.Compare(left=subs[0].slice, ops=[ast.In()], comparators=[subs[0].value])
                new = ast.copy_location(ast.If(test=test, body=[b], orelse=list(h.body)), st)
                ast.fix_missing_locations(new)
                blk[i] = new
                count += 1
    return count


# ----------------------------------------------------------------------------------------------------------------------------
# draining a private copy -> iteration

_MUTATORS = ('append', 'pop', 'remove', 'clear', 'extend', 'insert', 'sort', 'reverse', 'add', 'discard', 'update')


def poploop_to_for(tree: ast.Module) -> int:
    """        v = list(E)                 (also E[:], E.copy(), [*E])
               while v:                    (also len(v) > 0, len(v))
                   .. v.pop() ..           the only other mention of v, in the first (simple) statement of the body

    visits the elements of E last to first (`v.pop(0)`: first to last) and nothing else sees the copy: it is
    `for x in reversed(E)` / `for x in E`.  Rewritten in place so that loop rules see one spelling.  Not applied when the body
    stores to E or calls a mutating method on it (then the copy was taken for a reason).  -> number of loops rewritten"""
    count = 0
    for fn in [x for x in ast.walk(tree) if isinstance(x, (ast.FunctionDef, ast.AsyncFunctionDef))]:
        for node in ast.walk(fn):
            for fld in ('body', 'orelse', 'finalbody'):
                blk = getattr(node, fld, None)
                if not (isinstance(blk, list) and blk and isinstance(blk[0], ast.stmt)):
                    continue
                i = 0
                while i + 1 < len(blk):
                    a, w = blk[i], blk[i + 1]
                    i += 1
                    tgt = a.targets[0] if isinstance(a, ast.Assign) and len(a.targets) == 1 else (a.target if isinstance(a, ast.AnnAssign) else None)
                    val = getattr(a, 'value', None)
                    if not (isinstance(tgt, ast.Name) and val is not None and isinstance(w, ast.While) and not w.orelse and w.body):
                        continue
                    v = tgt.id
                    src = None
                    if isinstance(val, ast.Call) and isinstance(val.func, ast.Name) and val.func.id == 'list' and len(val.args) == 1 and not val.keywords:
                        src = val.args[0]
                    elif isinstance(val, ast.Subscript) and isinstance(val.slice, ast.Slice) and val.slice.lower is None \
                            and val.slice.upper is None and val.slice.step is None:
                        src = val.value
                    elif isinstance(val, ast.Call) and isinstance(val.func, ast.Attribute) and val.func.attr == 'copy' and not val.args:
                        src = val.func.value
                    elif isinstance(val, ast.List) and len(val.elts) == 1 and isinstance(val.elts[0], ast.Starred):
                        src = val.elts[0].value
                    if src is None or not isinstance(src, (ast.Name, ast.Attribute)):
                        continue
                    t = w.test
                    if isinstance(t, ast.Compare) and len(t.ops) == 1 and isinstance(t.ops[0], ast.Gt) \
                            and isinstance(t.comparators[0], ast.Constant) and t.comparators[0].value == 0:
                        t = t.left
                    if isinstance(t, ast.Call) and isinstance(t.func, ast.Name) and t.func.id == 'len' and len(t.args) == 1:
                        t = t.args[0]
                    if not (isinstance(t, ast.Name) and t.id == v):
                        continue
                    first = w.body[0]
                    if not isinstance(first, (ast.Assign, ast.AnnAssign, ast.Expr)):
                        continue
                    pops = [n for n in ast.walk(first) if isinstance(n, ast.Call) and isinstance(n.func, ast.Attribute) and n.func.attr == 'pop'
                            and isinstance(n.func.value, ast.Name) and n.func.value.id == v]
                    if len(pops) != 1:
                        continue
                    pop = pops[0]
                    if pop.keywords or len(pop.args) > 1 or pop.args and not (
                            isinstance(pop.args[0], ast.Constant) and pop.args[0].value in (0, -1)
                            or isinstance(pop.args[0], ast.UnaryOp) and ast.unparse(pop.args[0]) == '-1'):
                        continue
                    from_front = bool(pop.args) and ast.unparse(pop.args[0]) == '0'
                    mentions = sum(1 for n in ast.walk(fn) if isinstance(n, ast.Name) and n.id == v)
                    if mentions != 3:                       # the binding, the loop test, the pop
                        continue
                    if any(isinstance(n, (ast.Lambda, ast.IfExp, ast.BoolOp, ast.ListComp, ast.SetComp, ast.DictComp, ast.GeneratorExp))
                           and any(x is pop for x in ast.walk(n)) for n in ast.walk(first)):
                        continue                            # the pop must be evaluated exactly once per iteration
                    stxt = ast.unparse(src)
                    touched = False
                    for st in w.body:
                        for n in ast.walk(st):
                            if isinstance(n, (ast.Name, ast.Attribute, ast.Subscript)) and isinstance(getattr(n, 'ctx', None), (ast.Store, ast.Del)) \
                                    and ast.unparse(n).startswith(stxt):
                                touched = True
                            if isinstance(n, ast.Call) and isinstance(n.func, ast.Attribute) and n.func.attr in _MUTATORS \
                                    and ast.unparse(n.func.value) == stxt:
                                touched = True
                    if touched:
                        continue
                    item = v + '_item'
                    body = list(w.body)
                    if isinstance(first, ast.Assign) and first.value is pop and len(first.targets) == 1 and isinstance(first.targets[0], ast.Name):
                        item = first.targets[0].id
                        body = body[1:] or [ast.copy_location(ast.Pass(), first)]
                    else:
                        class R(ast.NodeTransformer):
                            def visit_Call(self, n):
                                if n is pop:
                                    return ast.copy_location(ast.Name(id=item, ctx=ast.Load()), n)
                                return self.generic_visit(n)
                        body[0] = R().visit(first)
                    it = src if from_front else ast.Call(func=ast.Name(id='reversed', ctx=ast.Load()), args=[src], keywords=[])
                    loop = ast.copy_location(ast.For(target=ast.Name(id=item, ctx=ast.Store()), iter=it, body=body, orelse=[]), w)
                    blk[i - 1:i + 1] = [loop]
                    ast.fix_missing_locations(loop)
                    count += 1
    return count


# ----------------------------------------------------------------------------------------------------------------------------
# explicit work list -> structural recursion

def worklist_to_recursion(tree: ast.Module) -> list:
    """A boolean method written as a loop over an explicit work list

        todo = [self]
        while todo:
            p = todo.pop()            (or `match todo.pop():`)
            ... return False ...      the node refutes the answer
            ... todo.append(child) / todo.extend((a, b)) ...
        return True

    computes the conjunction, over all nodes reached, of "this node does not refute".  That is the recursive method

        ... return False ...
        ... if not child.m(args): return False ...
        return True

    The rewrite is applied in place (rules then see the recursive form); it is exact unless the loop body returns the FINAL answer
    itself (`return True` inside the loop answers for every node still on the list): such early accepts are returned as
    [(class name, method name, node)] and left untranslated."""
    early = []
    for cls in [n for n in ast.walk(tree) if isinstance(n, ast.ClassDef)]:
        for fn in [n for n in cls.body if isinstance(n, ast.FunctionDef)]:
            body = [st for st in fn.body if not (isinstance(st, ast.Expr) and isinstance(st.value, ast.Constant))]
            if len(body) != 3 or not fn.args.args:
                continue
            init, loop, final = body
            selfname = fn.args.args[0].arg
            tgt = init.targets[0] if isinstance(init, ast.Assign) and len(init.targets) == 1 else (init.target if isinstance(init, ast.AnnAssign) else None)
            val = getattr(init, 'value', None)
            if not (isinstance(tgt, ast.Name) and isinstance(val, (ast.List, ast.Tuple)) and len(val.elts) == 1
                    and isinstance(val.elts[0], ast.Name) and val.elts[0].id == selfname):
                continue
            W = tgt.id
            if not (isinstance(loop, ast.While) and isinstance(loop.test, ast.Name) and loop.test.id == W and not loop.orelse):
                continue
            if not (isinstance(final, ast.Return) and isinstance(final.value, ast.Constant) and isinstance(final.value.value, bool)):
                continue
            ANSWER = final.value.value
            pops = [n for st in loop.body for n in ast.walk(st) if isinstance(n, ast.Call) and isinstance(n.func, ast.Attribute)
                    and n.func.attr == 'pop' and isinstance(n.func.value, ast.Name) and n.func.value.id == W]
            if len(pops) != 1 or pops[0].args and not (isinstance(pops[0].args[0], ast.Constant) and pops[0].args[0].value in (0, -1)):
                continue
            params = [ast.Name(id=a.arg, ctx=ast.Load()) for a in fn.args.args[1:]]
            bad = []

            class T(ast.NodeTransformer):
                def visit_Call(self, n):
                    if n is pops[0]:
                        return ast.copy_location(ast.Name(id=selfname, ctx=ast.Load()), n)
                    return self.generic_visit(n)

                def visit_FunctionDef(self, n):
                    return n

                visit_Lambda = visit_FunctionDef

                def visit_Return(self, n):
                    if isinstance(n.value, ast.Constant) and n.value.value is ANSWER:
                        bad.append(n)
                    return n

                def visit_Continue(self, n):
                    return ast.copy_location(ast.Return(value=ast.Constant(ANSWER)), n)

                def visit_Break(self, n):
                    bad.append(n)
                    return n

                def visit_Expr(self, n):
                    c = n.value
                    if isinstance(c, ast.Call) and isinstance(c.func, ast.Attribute) and isinstance(c.func.value, ast.Name) and c.func.value.id == W:
                        if c.func.attr == 'append' and len(c.args) == 1:
                            kids = [c.args[0]]
                        elif c.func.attr == 'extend' and len(c.args) == 1 and isinstance(c.args[0], (ast.Tuple, ast.List)):
                            kids = list(c.args[0].elts)
                        else:
                            bad.append(n)
                            return n
                        out = []
                        for k in kids:
                            k = self.visit(k)
                            call = ast.Call(func=ast.Attribute(value=k, attr=fn.name, ctx=ast.Load()), args=list(params), keywords=[])
                            test = call if ANSWER is False else ast.UnaryOp(op=ast.Not(), operand=call)
                            out.append(ast.copy_location(ast.If(test=test, body=[ast.Return(value=ast.Constant(not ANSWER))], orelse=[]), n))
                        return out
                    return self.generic_visit(n)
            import copy
            new_body = []
            for st in copy.deepcopy(loop.body) if False else loop.body:
                r = T().visit(st)
                new_body.extend(r if isinstance(r, list) else [r])
            other_uses = [n for st in new_body for n in ast.walk(st) if isinstance(n, ast.Name) and n.id == W]
            if other_uses:
                continue
            if bad:
                early.extend((cls.name, fn.name, b) for b in bad if isinstance(b, ast.Return))
                if any(not isinstance(b, ast.Return) for b in bad):
                    continue
            fn.body = new_body + [final]
            ast.fix_missing_locations(fn)
    return early


def match_to_if(tree: ast.AST) -> int:
    """`match s: case 'a': .. case C(): .. case C(attr=x): .. case _: ..` is the if / elif chain on `s == 'a'` /
    `isinstance(s, C)` (astpaths.match_as_ifs: value, singleton, wildcard / capture, or- and class patterns with keyword
    sub-patterns; positional destructuring stays a `match`, which PyEval compiles itself).  Every rule that reads dispatch chains
    then sees one spelling.  -> number of statements rewritten"""
    from .astpaths import match_as_ifs
    n = 0

    class T(ast.NodeTransformer):
        def visit_Match(self, node):
            nonlocal n
            self.generic_visit(node)
            chain = match_as_ifs(node)
            if chain is None or not chain:
                return node
            n += 1
            return chain

    T().visit(tree)
    return n


# ----------------------------------------------------------------------------------------------------------------------------
# `v = A if C else None` .. `if v is None: X else: Y(v)`   ->   `if not C: X else: Y(A)`

def optional_flag_to_test(tree: ast.Module) -> int:
    """A local bound once to `A if C else None` (or `None if C else A`) and then only tested against None or read where it is
    known not to be None restates the test C under another name: `v is None` is `not C`, `v is not None` is `C`, and `v` read
    under that knowledge is `A`.  A is a name / attribute chain and C a pure test, none of whose names is re-bound while `v` is
    live (all reads of `v` follow the binding in the same block).  -> number of locals dissolved"""
    count = 0

    def chain(e):
        while isinstance(e, ast.Attribute):
            e = e.value
        return isinstance(e, ast.Name)

    def pure_test(e):
        if isinstance(e, ast.BoolOp):
            return all(pure_test(v) for v in e.values)
        if isinstance(e, ast.UnaryOp) and isinstance(e.op, ast.Not):
            return pure_test(e.operand)
        if isinstance(e, ast.Compare):
            return all(chain(x) or isinstance(x, ast.Constant) for x in [e.left] + e.comparators)
        if isinstance(e, ast.Call) and isinstance(e.func, ast.Name) and e.func.id == 'isinstance' and len(e.args) == 2:
            return chain(e.args[0])
        return chain(e) or isinstance(e, ast.Constant)

    def none_test(e, v):
        """-> True for `v is None`, False for `v is not None`, else None"""
        if isinstance(e, ast.Compare) and len(e.ops) == 1 and isinstance(e.left, ast.Name) and e.left.id == v \
                and isinstance(e.comparators[0], ast.Constant) and e.comparators[0].value is None:
            if isinstance(e.ops[0], ast.Is):
                return True
            if isinstance(e.ops[0], ast.IsNot):
                return False
        return None

    for fn in [x for x in ast.walk(tree) if isinstance(x, (ast.FunctionDef, ast.AsyncFunctionDef))]:
        again = True
        while again:
            again = False
            names = [n for n in ast.walk(fn) if isinstance(n, ast.Name)]
            for node in ast.walk(fn):
                for fld in ('body', 'orelse', 'finalbody'):
                    blk = getattr(node, fld, None)
                    if not (isinstance(blk, list) and blk and isinstance(blk[0], ast.stmt)):
                        continue
                    for i, st in enumerate(blk):
                        tgt = st.targets[0] if isinstance(st, ast.Assign) and len(st.targets) == 1 else (st.target if isinstance(st, ast.AnnAssign) else None)
                        val = getattr(st, 'value', None)
                        if not (isinstance(tgt, ast.Name) and isinstance(val, ast.IfExp)):
                            continue
                        v = tgt.id
                        if isinstance(val.orelse, ast.Constant) and val.orelse.value is None:
                            cond, a = val.test, val.body
                        elif isinstance(val.body, ast.Constant) and val.body.value is None:
                            cond, a = ast.UnaryOp(op=ast.Not(), operand=val.test), val.orelse
                        else:
                            continue
                        if not (chain(a) and pure_test(val.test)):
                            continue
                        if sum(1 for n in names if n.id == v and isinstance(n.ctx, (ast.Store, ast.Del))) != 1:
                            continue
                        rest = blk[i + 1:]
                        inside = {id(n) for r in rest for n in ast.walk(r)}
                        loads = [n for n in names if n.id == v and isinstance(n.ctx, ast.Load)]
                        if not loads or any(id(n) not in inside for n in loads):
                            continue
                        used = {n.id for e in (a, val.test) for n in ast.walk(e) if isinstance(n, ast.Name)}
                        if any(isinstance(n, ast.Name) and n.id in used and isinstance(n.ctx, (ast.Store, ast.Del)) for r in rest for n in ast.walk(r)):
                            continue
                        parents = {id(ch): p for r in rest for p in ast.walk(r) for ch in ast.iter_child_nodes(p)}

                        def known_not_none(n):
                            cur = n
                            while id(cur) in parents:
                                par = parents[id(cur)]
                                if isinstance(par, ast.If) and not any(cur is t for t in ast.walk(par.test)):
                                    in_body = any(cur is s_ for s_ in par.body)
                                    tests = par.test.values if isinstance(par.test, ast.BoolOp) and isinstance(par.test.op, ast.And) else [par.test]
                                    if in_body and any(none_test(t, v) is False for t in tests):
                                        return True
                                    if not in_body and none_test(par.test, v) is True:
                                        return True
                                cur = par
                            return False

                        ok = True
                        for n in loads:
                            par = parents.get(id(n))
                            if par is not None and none_test(par, v) is not None:
                                continue
                            if not known_not_none(n):
                                ok = False
                                break
                        if not ok:
                            continue

                        class R(ast.NodeTransformer):
                            def visit_Compare(self, e):
                                t = none_test(e, v)
                                if t is None:
                                    return self.generic_visit(e)
                                c = copy.deepcopy(cond)
                                if t:
                                    c = c.operand if isinstance(c, ast.UnaryOp) and isinstance(c.op, ast.Not) else ast.UnaryOp(op=ast.Not(), operand=c)
                                return ast.copy_location(c, e)

                            def visit_Name(self, e):
                                if e.id == v and isinstance(e.ctx, ast.Load):
                                    return ast.copy_location(copy.deepcopy(a), e)
                                return e

                        new_rest = [ast.fix_missing_locations(R().visit(r)) for r in rest]
                        blk[i:] = new_rest
                        count += 1
                        again = True
                        break
                    if again:
                        break
                if again:
                    break
    return count


# ----------------------------------------------------------------------------------------------------------------------------
# lambda lifting undone: a module-level helper used by one function, which hands it its own fixed locals, is that function's closure

def nest_lifted_helpers(tree: ast.Module) -> int:
    """A module-level function G all of whose uses are calls inside ONE other function F (module-level, a method, or nested in
    one; the innermost function containing every use), and which receives at some
    parameter position always the same plain name x of F - a parameter of F or a local bound exactly once by a top-level statement
    of F before the first such call - is the closure over x that lambda lifting turns into a parameter.  G is moved into F (after
    the binding of the captured names) with those parameters dropped and their uses renamed to x; the calls lose the arguments.
    Only private helpers (`_name`): for a public function "all uses are in F" cannot be established from its module alone.
    Rules that read F's local procedures then see one spelling.  -> number of helpers nested"""
    count = 0
    for _round in range(20):
        funcs = {n.name: n for n in tree.body if isinstance(n, ast.FunctionDef)}
        moved = False
        for gname, g in funcs.items():
            if g.decorator_list or g.args.vararg or g.args.kwarg or g.args.kwonlyargs or g.args.defaults or g.args.posonlyargs:
                continue
            if not gname.startswith('_') or gname.startswith('__'):
                continue
            if any(isinstance(n, (ast.Yield, ast.YieldFrom, ast.Global, ast.Nonlocal)) for n in ast.walk(g)):
                continue
            if any(isinstance(n, ast.Name) and n.id == gname for n in ast.walk(g)):
                continue                                   # recursive
            refs = [n for n in ast.walk(tree) if isinstance(n, ast.Name) and n.id == gname]
            if not refs:
                continue
            # F: the innermost function (module-level, method or nested) that contains every use
            in_g = {id(n) for n in ast.walk(g)}
            cands = [f for f in ast.walk(tree) if isinstance(f, ast.FunctionDef) and id(f) not in in_g
                     and all(id(r) in {id(n) for n in ast.walk(f)} for r in refs)]
            cands = [f for f in cands if not any(f2 is not f and any(f2 is n for n in ast.walk(f)) for f2 in cands)]
            if len(cands) != 1:
                continue
            f = cands[0]
            calls = [n for n in ast.walk(f) if isinstance(n, ast.Call) and isinstance(n.func, ast.Name) and n.func.id == gname]
            if len(calls) != len(refs) or any(c.keywords or len(c.args) != len(g.args.args) or any(isinstance(a, ast.Starred) for a in c.args)
                                                for c in calls):
                continue
            # also referenced from a string annotation / __all__ etc.: leave alone
            params = [a.arg for a in g.args.args]
            f_params = {a.arg for a in f.args.args + f.args.kwonlyargs}
            top_index = {}
            for i, st in enumerate(f.body):
                for n in ast.walk(st):
                    top_index[id(n)] = i
            first_call = min(top_index[id(c)] for c in calls)
            captured = {}                                   # position -> (name of F, index of its binding statement or -1)
            for j, pname in enumerate(params):
                args = [c.args[j] for c in calls]
                if not all(isinstance(a, ast.Name) for a in args) or len({a.id for a in args}) != 1:
                    continue
                x = args[0].id
                stores = [n for n in ast.walk(f) if isinstance(n, ast.Name) and n.id == x and isinstance(n.ctx, (ast.Store, ast.Del))]
                # a nested def / lambda parameter named x would shadow: be strict
                shadows = [n for n in ast.walk(f) if isinstance(n, ast.arg) and n.arg == x and n not in f.args.args + f.args.kwonlyargs]
                if shadows:
                    continue
                if x in f_params and not stores:
                    captured[j] = (x, -1)
                elif x not in f_params and len(stores) == 1:
                    bi = top_index[id(stores[0])]
                    st = f.body[bi]
                    tgt = st.targets[0] if isinstance(st, ast.Assign) and len(st.targets) == 1 else (st.target if isinstance(st, ast.AnnAssign) else None)
                    if tgt is stores[0] and bi < first_call:
                        captured[j] = (x, bi)
            if not captured:
                continue
            # renaming must not capture: x may not be bound inside G nor be another (kept) parameter of G
            ok = True
            for j, (x, _bi) in captured.items():
                if x != params[j]:
                    if x in params or any(isinstance(n, ast.Name) and n.id == x and isinstance(n.ctx, (ast.Store, ast.Del)) for n in ast.walk(g)) \
                            or any(isinstance(n, ast.arg) and n.arg == x for n in ast.walk(g)):
                        ok = False
                if any(isinstance(n, ast.Name) and n.id == params[j] and isinstance(n.ctx, (ast.Store, ast.Del)) for n in ast.walk(g)):
                    ok = False
            if not ok:
                continue
            ren = {params[j]: x for j, (x, _bi) in captured.items() if params[j] != x}
            for n in ast.walk(g):
                if isinstance(n, ast.Name) and n.id in ren:
                    n.id = ren[n.id]
            g.args.args = [a for j, a in enumerate(g.args.args) if j not in captured]
            for c in calls:
                c.args = [a for j, a in enumerate(c.args) if j not in captured]
            tree.body.remove(g)
            at = max(bi for _x, bi in captured.values()) + 1
            if at == 0 and f.body and isinstance(f.body[0], ast.Expr) and isinstance(f.body[0].value, ast.Constant):
                at = 1
            f.body.insert(at, g)
            count += 1
            moved = True
            break
        if not moved:
            break
    return count


# ----------------------------------------------------------------------------------------------------------------------------
# `def g(): for t in IT: yield E` .. `for x in g(): B`   ->   `for t in IT: x = E; B`
# `for v in iter(f, None): B`                            ->   `while (v := f()) is not None: B`

def inline_simple_generators(tree: ast.Module) -> int:
    """A local parameterless generator consumed by exactly one `for x in g(): B` is its own body with `x = E; B` in place of each
    `yield E` and `for x in IT: B` in place of each `yield from IT` (generators are lazy: producer and consumer alternate exactly
    like this).  B must not `break` / `continue` the consuming loop (that would stop or skip inside the producer), the producer
    must not `return` early, and its locals are renamed apart from the enclosing function's names.
    `iter(f, None)` is the stream of `f()` up to the first None.  -> number of rewrites"""
    import copy
    count = 0
    # a private module-level generator referenced once in the whole module is the local generator of the function that uses it
    # (or in several functions, once each, always as the iterable of a `for`)
    def _only_loop_sources(name):
        refs_ = [x for x in ast.walk(tree) if isinstance(x, ast.Name) and x.id == name]
        fors_ = [l_.iter.func for l_ in ast.walk(tree) if isinstance(l_, ast.For) and isinstance(l_.iter, ast.Call) and isinstance(l_.iter.func, ast.Name)]
        per_fn = [sum(1 for x in ast.walk(f_) if isinstance(x, ast.Name) and x.id == name) for f_ in ast.walk(tree)
                  if isinstance(f_, ast.FunctionDef) and not any(isinstance(g_, ast.FunctionDef) and g_ is not f_ and any(x is y for x in refs_ for y in ast.walk(g_))
                                                                 for g_ in ast.walk(f_))]
        return bool(refs_) and all(any(r is f for f in fors_) for r in refs_) and all(k_ <= 1 for k_ in per_fn)
    lifted = [n for n in getattr(tree, 'body', []) if isinstance(n, ast.FunctionDef) and n.name.startswith('_') and not n.name.startswith('__')
              and (sum(1 for x in ast.walk(tree) if isinstance(x, ast.Name) and x.id == n.name) == 1 or _only_loop_sources(n.name))
              and not any(isinstance(x, ast.Constant) and x.value == n.name for x in ast.walk(tree))]
    for fn in [x for x in ast.walk(tree) if isinstance(x, (ast.FunctionDef, ast.AsyncFunctionDef))]:
        for g in [n for n in fn.body if isinstance(n, ast.FunctionDef)] + [n for n in lifted if n is not fn and not any(n is y for y in ast.walk(fn))]:
            if g.args.vararg or g.args.kwarg or g.args.kwonlyargs or g.args.defaults or g.args.posonlyargs or g.decorator_list:
                continue
            gparams = [a.arg for a in g.args.args]
            inner_defs = {id(n) for h in ast.walk(g) if isinstance(h, (ast.FunctionDef, ast.Lambda)) and h is not g for n in ast.walk(h)}
            if gparams and (inner_defs or any(isinstance(n, ast.Name) and n.id in gparams and isinstance(n.ctx, (ast.Store, ast.Del)) for n in ast.walk(g))):
                continue
            ys = [n for n in ast.walk(g) if isinstance(n, (ast.Yield, ast.YieldFrom)) and id(n) not in inner_defs]
            ystmts = [st for st in ast.walk(g) if isinstance(st, ast.Expr) and id(st) not in inner_defs
                      and (isinstance(st.value, ast.Yield) and st.value.value is not None or isinstance(st.value, ast.YieldFrom))]
            if not ys or len(ys) != len(ystmts) or len(ys) > 4:
                continue
            if any(isinstance(n, (ast.Return, ast.Global, ast.Nonlocal)) and id(n) not in inner_defs for n in ast.walk(g)):
                continue
            refs = [n for n in ast.walk(fn) if isinstance(n, ast.Name) and n.id == g.name]
            uses = [n for n in ast.walk(fn) if isinstance(n, ast.For) and isinstance(n.iter, ast.Call) and isinstance(n.iter.func, ast.Name)
                    and n.iter.func.id == g.name and len(n.iter.args) == len(gparams) and not n.iter.keywords and not n.orelse]
            if len(refs) != 1 or len(uses) != 1 or any(u is x for u in uses for x in ast.walk(g)):
                continue
            use = uses[0]
            # parameters: read-only in the generator, and the arguments are names / attribute chains / constants that denote the same
            # value whenever they are evaluated (nothing in the enclosing function rebinds the names or stores into the attributes)
            gsub = {}
            if gparams:
                def steady(e):
                    if isinstance(e, ast.Constant):
                        return True
                    if isinstance(e, ast.Name):
                        return len(_stores(fn, e.id)) == 0 or (len(_stores(fn, e.id)) == 1 and e.id not in {a.arg for a in fn.args.args})
                    if isinstance(e, ast.Attribute):
                        return steady(e.value) and not any(isinstance(n, ast.Attribute) and n.attr == e.attr and isinstance(n.ctx, (ast.Store, ast.Del))
                                                           for n in ast.walk(fn))
                    return False
                def once_at_start(pn):
                    # the parameter is read exactly once, as the iterable of the generator's first statement: evaluated when the
                    # consumer starts the loop, in both spellings - any argument expression will do
                    reads = [x for x in ast.walk(g) if isinstance(x, ast.Name) and x.id == pn]
                    body0 = [x for x in g.body if not (isinstance(x, ast.Expr) and isinstance(x.value, ast.Constant))]
                    return len(reads) == 1 and body0 and isinstance(body0[0], ast.For) and body0[0].iter is reads[0]
                if not all(steady(a) or once_at_start(pn) for pn, a in zip(gparams, use.iter.args)):
                    continue
                gsub = dict(zip(gparams, use.iter.args))

            # the consumer's body may not break / continue the consuming loop itself
            def escapes(stmts):
                for st in stmts:
                    if isinstance(st, (ast.Break, ast.Continue)):
                        return True
                    if isinstance(st, (ast.For, ast.While, ast.FunctionDef, ast.ClassDef)):
                        continue
                    for fld in ('body', 'orelse', 'finalbody', 'handlers'):
                        sub = getattr(st, fld, None)
                        if isinstance(sub, list) and sub and isinstance(sub[0], ast.stmt) and escapes(sub):
                            return True
                return False
            if escapes(use.body):
                continue
            in_g = {id(n) for n in ast.walk(g)}
            outer_names = {n.id for n in ast.walk(fn) if isinstance(n, ast.Name) and id(n) not in in_g} | {a.arg for a in fn.args.args}
            stored_g = {n.id for n in ast.walk(g) if isinstance(n, ast.Name) and isinstance(n.ctx, (ast.Store, ast.Del)) and id(n) not in inner_defs}
            ren = {v: f'{v}__{g.name}' for v in stored_g if v in outer_names}
            gbody = [copy.deepcopy(st) for st in g.body if not (isinstance(st, ast.Expr) and isinstance(st.value, ast.Constant))]

            class R(ast.NodeTransformer):
                def visit_Name(self, n):
                    if n.id in gsub and isinstance(n.ctx, ast.Load):
                        return ast.copy_location(copy.deepcopy(gsub[n.id]), n)
                    if n.id in ren:
                        n.id = ren[n.id]
                    return n

                def visit_FunctionDef(self, n):
                    return n

                visit_Lambda = visit_FunctionDef

                def visit_Expr(self, n):
                    self.generic_visit(n)
                    if isinstance(n.value, ast.Yield):
                        bind = ast.Assign(targets=[copy.deepcopy(use.target)], value=n.value.value)
                        return [ast.copy_location(bind, n)] + [copy.deepcopy(b) for b in use.body]
                    if isinstance(n.value, ast.YieldFrom):
                        lp = ast.For(target=copy.deepcopy(use.target), iter=n.value.value, body=[copy.deepcopy(b) for b in use.body], orelse=[])
                        return ast.copy_location(lp, n)
                    return n
            new = []
            for st in gbody:
                r = R().visit(st)
                new.extend(r if isinstance(r, list) else [r])
            for x in new:
                ast.fix_missing_locations(x)
            # replace the consuming loop by the expanded producer, drop the definition
            done = False
            for holder in ast.walk(fn):
                for fld in ('body', 'orelse', 'finalbody'):
                    blk = getattr(holder, fld, None)
                    if isinstance(blk, list) and any(x is use for x in blk):
                        k = next(i for i, x in enumerate(blk) if x is use)
                        blk[k:k + 1] = new
                        done = True
                        break
                if done:
                    break
            if done:
                fn.body = [x for x in fn.body if x is not g]
                if any(g is x for x in lifted) and not any(isinstance(x, ast.Name) and x.id == g.name for x in ast.walk(tree)):
                    tree.body = [x for x in tree.body if x is not g]
                    lifted = [x for x in lifted if x is not g]
                count += 1
    for node in ast.walk(tree):
        for fld in ('body', 'orelse', 'finalbody'):
            blk = getattr(node, fld, None)
            if not (isinstance(blk, list) and blk and isinstance(blk[0], ast.stmt)):
                continue
            for i, st in enumerate(blk):
                if isinstance(st, ast.For) and not st.orelse and isinstance(st.target, ast.Name) and isinstance(st.iter, ast.Call) \
                        and isinstance(st.iter.func, ast.Name) and st.iter.func.id == 'iter' and len(st.iter.args) == 2 and not st.iter.keywords \
                        and isinstance(st.iter.args[1], ast.Constant) and st.iter.args[1].value is None \
                        and isinstance(st.iter.args[0], (ast.Name, ast.Attribute)):
                    test = ast.Compare(left=ast.NamedExpr(target=ast.Name(id=st.target.id, ctx=ast.Store()),
                                                          value=ast.Call(func=st.iter.args[0], args=[], keywords=[])),
                                       ops=[ast.IsNot()], comparators=[ast.Constant(None)])
                    w = ast.While(test=test, body=st.body, orelse=[])
                    ast.copy_location(w, st)
                    blk[i] = ast.fix_missing_locations(w)
                    count += 1
    return count


# ----------------------------------------------------------------------------------------------------------------------------
# `out.extend(gen(a, b))` with `def gen(p, q): ... yield E ...`   ->   the body of gen in place, `out.append(E)` for `yield E`

def extend_by_generator_to_appends(tree: ast.Module) -> int:
    """Extending a list by a call of a module-level generator function appends what it yields, in order, and nothing else
    happens in between (the generator runs to exhaustion inside `extend`): the statement is the generator's body with each
    `yield E` read as `out.append(E)` (`yield from IT` as `out.extend(IT)`), its parameters replaced by the (plain name) arguments and a bare `return` restructured
    into if / else.  Locals of the generator that clash with names of the caller are renamed apart.  -> number of sites"""
    import copy
    count = 0
    gens = {}
    for g in tree.body:
        if isinstance(g, ast.FunctionDef) and not g.decorator_list and not (g.args.vararg or g.args.kwarg or g.args.kwonlyargs or g.args.defaults):
            inner_defs = {id(n) for h in ast.walk(g) if isinstance(h, (ast.FunctionDef, ast.Lambda)) and h is not g for n in ast.walk(h)}
            ys = [n for n in ast.walk(g) if isinstance(n, (ast.Yield, ast.YieldFrom)) and id(n) not in inner_defs]
            if not ys:
                continue
            stmts_y = [st for st in ast.walk(g) if isinstance(st, ast.Expr) and (isinstance(st.value, ast.Yield) and st.value.value is not None
                                                                                  or isinstance(st.value, ast.YieldFrom))]
            if len(stmts_y) != len(ys):
                continue                              # a yield used as an expression
            if any(isinstance(n, ast.Return) and n.value is not None and id(n) not in inner_defs for n in ast.walk(g)):
                continue
            if any(isinstance(n, ast.Name) and n.id == g.name for n in ast.walk(g)):
                continue
            gens[g.name] = g
    if not gens:
        return 0
    for fn in [x for x in ast.walk(tree) if isinstance(x, ast.FunctionDef)]:
        if fn.name in gens:
            continue
        for holder in ast.walk(fn):
            for fld in ('body', 'orelse', 'finalbody'):
                blk = getattr(holder, fld, None)
                if not (isinstance(blk, list) and blk and isinstance(blk[0], ast.stmt)):
                    continue
                i = 0
                while i < len(blk):
                    st = blk[i]
                    i += 1
                    if not (isinstance(st, ast.Expr) and isinstance(st.value, ast.Call) and isinstance(st.value.func, ast.Attribute)
                            and st.value.func.attr == 'extend' and isinstance(st.value.func.value, ast.Name) and len(st.value.args) == 1
                            and isinstance(st.value.args[0], ast.Call) and isinstance(st.value.args[0].func, ast.Name)
                            and st.value.args[0].func.id in gens and not st.value.args[0].keywords):
                        continue
                    out = st.value.func.value.id
                    call = st.value.args[0]
                    g = gens[call.func.id]
                    params = [a.arg for a in g.args.args]
                    if len(params) != len(call.args) or not all(isinstance(a, ast.Name) for a in call.args):
                        continue
                    stored = {n.id for n in ast.walk(g) if isinstance(n, ast.Name) and isinstance(n.ctx, (ast.Store, ast.Del))} | \
                             {h.name for h in ast.walk(g) if isinstance(h, ast.FunctionDef) and h is not g}
                    if stored & set(params) or out in stored:
                        continue
                    body = _eliminate_returns([copy.deepcopy(x) for x in g.body if not (isinstance(x, ast.Expr) and isinstance(x.value, ast.Constant))])
                    if body is None:
                        continue
                    caller_names = {n.id for n in ast.walk(fn) if isinstance(n, ast.Name)} | {a.arg for a in fn.args.args}
                    ren = {v: f'{v}__{g.name}' for v in stored if v in caller_names}
                    sub = {p: a.id for p, a in zip(params, call.args)}

                    class R(ast.NodeTransformer):
                        def visit_Name(self, n):
                            if n.id in sub and isinstance(n.ctx, ast.Load):
                                n.id = sub[n.id]
                            elif n.id in ren:
                                n.id = ren[n.id]
                            return n

                        def visit_FunctionDef(self, n):
                            if n.name in ren:
                                n.name = ren[n.name]
                            if any(a.arg in sub or a.arg in ren for a in n.args.args):
                                return n              # shadowing parameter: leave the inner function alone
                            self.generic_visit(n)
                            return n

                        def visit_Expr(self, n):
                            self.generic_visit(n)
                            if isinstance(n.value, (ast.Yield, ast.YieldFrom)):
                                # `yield E` appends E, `yield from IT` extends by IT
                                how = 'append' if isinstance(n.value, ast.Yield) else 'extend'
                                c = ast.Call(func=ast.Attribute(value=ast.Name(id=out, ctx=ast.Load()), attr=how, ctx=ast.Load()),
                                             args=[n.value.value], keywords=[])
                                return ast.copy_location(ast.Expr(value=c), n)
                            return n
                    new = [R().visit(x) for x in body]
                    for x in new:
                        for n in ast.walk(x):
                            if hasattr(n, 'lineno'):
                                n.lineno = n.end_lineno = st.lineno
                        ast.fix_missing_locations(x)
                    blk[i - 1:i] = new
                    i += len(new) - 1
                    count += 1
    return count


# ----------------------------------------------------------------------------------------------------------------------------
# `partial(_g, a, b)` of a private module-level `def _g(p, q, rest..)` used at that one place  ->  the closure
# `def _g(rest..): <body with p, q read from the enclosing function>` defined just before, and a reference to it

def unpartial_private_helpers(tree: ast.Module) -> int:
    """A private module-level function whose only use is as the first argument of ONE `functools.partial(..)` call inside a
    function F is F's closure over the partially applied arguments: the definition is moved into F directly before the statement
    that builds the partial, with the leading parameters dropped - a plain-name argument is read under its own name, any other
    argument is bound to a local first (it is evaluated once, where `partial(..)` evaluated it) - and the `partial(..)` call is
    replaced by the function's name.  Keyword arguments of partial, rebinding of the dropped parameters inside the helper, and
    recursion are left alone.  -> number of helpers moved"""
    import copy
    count = 0
    for _round in range(20):
        funcs = {n.name: n for n in tree.body if isinstance(n, ast.FunctionDef)}
        moved = False
        for gname, g in funcs.items():
            if not gname.startswith('_') or gname.startswith('__') or g.decorator_list or g.args.vararg or g.args.kwarg \
                    or g.args.kwonlyargs or g.args.defaults or g.args.posonlyargs:
                continue
            if any(isinstance(n, (ast.Yield, ast.YieldFrom, ast.Global, ast.Nonlocal)) for n in ast.walk(g)) \
                    or any(isinstance(n, ast.Name) and n.id == gname for n in ast.walk(g)):
                continue
            refs = [n for n in ast.walk(tree) if isinstance(n, ast.Name) and n.id == gname]
            sites = [c for c in ast.walk(tree) if isinstance(c, ast.Call) and isinstance(c.func, (ast.Name, ast.Attribute))
                     and (c.func.id if isinstance(c.func, ast.Name) else c.func.attr) == 'partial' and c.args and c.args[0] in refs]
            if len(refs) != 1 or len(sites) != 1 or sites[0].keywords or any(isinstance(a, ast.Starred) for a in sites[0].args):
                continue
            site = sites[0]
            k = len(site.args) - 1
            params = [a.arg for a in g.args.args]
            if k < 1 or k > len(params):
                continue
            in_g = {id(n) for n in ast.walk(g)}
            owners = [f for f in ast.walk(tree) if isinstance(f, ast.FunctionDef) and id(f) not in in_g and any(site is n for n in ast.walk(f))]
            owners = [f for f in owners if not any(f2 is not f and any(f2 is n for n in ast.walk(f)) for f2 in owners)]
            if len(owners) != 1:
                continue
            f = owners[0]
            # the statement of F's body (any block) that contains the partial
            holder = None
            for h in ast.walk(f):
                for fld in ('body', 'orelse', 'finalbody'):
                    blk = getattr(h, fld, None)
                    if isinstance(blk, list) and blk and isinstance(blk[0], ast.stmt):
                        for i, st in enumerate(blk):
                            if not isinstance(st, (ast.FunctionDef, ast.ClassDef)) and any(site is n for n in _own_walk(st)):
                                holder = (blk, i)
            if holder is None:
                continue
            stored_g = {n.id for n in ast.walk(g) if isinstance(n, ast.Name) and isinstance(n.ctx, (ast.Store, ast.Del))}
            if stored_g & set(params[:k]):
                continue
            f_names = {n.id for n in ast.walk(f) if isinstance(n, ast.Name)} | {a.arg for a in f.args.args}
            binds, ren = [], {}
            ok = True
            for p_, a_ in zip(params[:k], site.args[1:]):
                if isinstance(a_, ast.Name):
                    if a_.id != p_ and (a_.id in params or a_.id in stored_g):
                        ok = False
                    ren[p_] = a_.id
                else:
                    fresh = f'{p_}__{gname.strip("_")}'
                    if fresh in f_names:
                        ok = False
                    binds.append(ast.Assign(targets=[ast.Name(id=fresh, ctx=ast.Store())], value=a_))
                    ren[p_] = fresh
            if not ok:
                continue
            g2 = copy.deepcopy(g)
            for n in ast.walk(g2):
                if isinstance(n, ast.Name) and n.id in ren:
                    n.id = ren[n.id]
            g2.args.args = g2.args.args[k:]
            blk, i = holder
            for b in binds:
                ast.copy_location(b, blk[i])
            ast.copy_location(g2, blk[i])
            # replace the partial(..) call by the name
            class R(ast.NodeTransformer):
                def visit_Call(self, n):
                    if n is site:
                        return ast.copy_location(ast.Name(id=gname, ctx=ast.Load()), n)
                    return self.generic_visit(n)
            blk[i] = R().visit(blk[i])
            blk[i:i] = binds + [g2]
            for x in binds + [g2]:
                ast.fix_missing_locations(x)
            tree.body.remove(g)
            count += 1
            moved = True
            break
        if not moved:
            break
    return count


def _own_walk(node):
    stack = [node]
    while stack:
        n = stack.pop()
        yield n
        for c in ast.iter_child_nodes(n):
            if not isinstance(c, (ast.FunctionDef, ast.AsyncFunctionDef, ast.ClassDef)):
                stack.append(c)


# ----------------------------------------------------------------------------------------------------------------------------
# a local helper object with one-line methods is its fields: `o = K(a)` .. `o.m(x)`  ->  `o__f = a` .. <body of m on o__f, x>

def dissolve_local_objects(tree: ast.Module) -> int:
    """`o = K(args)` in a function F, where K is a plain module-level class whose `__init__` only binds fields
    (`self.f = <expression over its parameters>`) and whose other methods are one-liners (`return E` / one call statement), and
    where F uses `o` only as `o.m(..)` / `o.f` (it is never passed on, returned or rebound), is the group of locals `o__f`: the
    constructor call becomes their bindings and each method call its body on those locals.  Rules that follow a list and an
    offset then see them whether or not the project wraps them in a small class.  -> number of objects dissolved"""
    import copy
    count = 0
    classes = {c.name: c for c in tree.body if isinstance(c, ast.ClassDef) and not c.decorator_list and not c.bases}
    if not classes:
        return 0
    shapes = {}
    for name, c in classes.items():
        meths = {m.name: m for m in c.body if isinstance(m, ast.FunctionDef)}
        init = meths.get('__init__')
        if init is None or init.args.vararg or init.args.kwarg or any(isinstance(x, (ast.ClassDef,)) for x in c.body):
            continue
        ibody = [st for st in init.body if not (isinstance(st, ast.Expr) and isinstance(st.value, ast.Constant))]
        fields = {}
        ok = True
        for st in ibody:
            t = st.targets[0] if isinstance(st, ast.Assign) and len(st.targets) == 1 else (st.target if isinstance(st, ast.AnnAssign) else None)
            if not (isinstance(t, ast.Attribute) and isinstance(t.value, ast.Name) and t.value.id == init.args.args[0].arg and st.value is not None):
                ok = False
                break
            if any(isinstance(n, ast.Name) and n.id == init.args.args[0].arg for n in ast.walk(st.value)):
                ok = False
                break
            fields[t.attr] = st.value
        one = {}
        for mname, m in meths.items():
            if mname == '__init__':
                continue
            b = [st for st in m.body if not (isinstance(st, ast.Expr) and isinstance(st.value, ast.Constant))]
            if m.decorator_list or m.args.vararg or m.args.kwarg or m.args.defaults or len(b) != 1 \
                    or not (isinstance(b[0], ast.Return) and b[0].value is not None or isinstance(b[0], ast.Expr)):
                ok = False
                break
            one[mname] = m
        if ok and fields:
            shapes[name] = (init, fields, one)
    if not shapes:
        return 0
    for fn in [x for x in ast.walk(tree) if isinstance(x, ast.FunctionDef)]:
        for st in list(fn.body):
            t = st.targets[0] if isinstance(st, ast.Assign) and len(st.targets) == 1 else (st.target if isinstance(st, ast.AnnAssign) else None)
            v = getattr(st, 'value', None)
            if not (isinstance(t, ast.Name) and isinstance(v, ast.Call) and isinstance(v.func, ast.Name) and v.func.id in shapes):
                continue
            o = t.id
            init, fields, one = shapes[v.func.id]
            iparams = [a.arg for a in init.args.args[1:] + init.args.kwonlyargs]
            if any(isinstance(a, ast.Starred) for a in v.args) or any(k.arg is None for k in v.keywords):
                continue
            bound = dict(zip(iparams, v.args))
            bound.update({k.arg: k.value for k in v.keywords})
            defaults = dict(zip([a.arg for a in init.args.args[1:]][-len(init.args.defaults):], init.args.defaults)) if init.args.defaults else {}
            for p_ in iparams:
                if p_ not in bound and p_ in defaults:
                    bound[p_] = defaults[p_]
            if set(bound) != set(iparams):
                continue
            # every use of o: o.m(..) with a one-liner m, or o.f with a field f; one binding only
            uses = [n for n in ast.walk(fn) if isinstance(n, ast.Name) and n.id == o and n is not t]
            if any(isinstance(n.ctx, (ast.Store, ast.Del)) for n in uses):
                continue
            parents = {id(ch): p_ for p_ in ast.walk(fn) for ch in ast.iter_child_nodes(p_)}
            okuse = True
            for n in uses:
                par = parents.get(id(n))
                if not (isinstance(par, ast.Attribute) and par.value is n and (par.attr in fields or par.attr in one)):
                    okuse = False
                    break
                if par.attr in one:
                    gp = parents.get(id(par))
                    m = one[par.attr]
                    if not (isinstance(gp, ast.Call) and gp.func is par and not gp.keywords and len(gp.args) == len(m.args.args) - 1
                            and not any(isinstance(a, ast.Starred) for a in gp.args)):
                        okuse = False
                        break
            if not okuse or not uses:
                continue
            loc = {f: f'{o}__{f.strip("_")}' for f in fields}

            def field_expr(e, selfname, table):
                class S(ast.NodeTransformer):
                    def visit_Attribute(self, n):
                        self.generic_visit(n)
                        if isinstance(n.value, ast.Name) and n.value.id == selfname and n.attr in loc:
                            return ast.copy_location(ast.Name(id=loc[n.attr], ctx=n.ctx), n)
                        return n

                    def visit_Name(self, n):
                        if n.id in table and isinstance(n.ctx, ast.Load):
                            return ast.copy_location(copy.deepcopy(table[n.id]), n)
                        return n
                return S().visit(copy.deepcopy(e))

            class U(ast.NodeTransformer):
                def visit_Call(self, n):
                    self.generic_visit(n)
                    if isinstance(n.func, ast.Attribute) and isinstance(n.func.value, ast.Name) and n.func.value.id == o and n.func.attr in one:
                        m = one[n.func.attr]
                        b = [x for x in m.body if not (isinstance(x, ast.Expr) and isinstance(x.value, ast.Constant))][0]
                        table = dict(zip([a.arg for a in m.args.args[1:]], n.args))
                        return ast.copy_location(field_expr(b.value, m.args.args[0].arg, table), n)
                    return n

                def visit_Attribute(self, n):
                    self.generic_visit(n)
                    if isinstance(n.value, ast.Name) and n.value.id == o and n.attr in loc:
                        return ast.copy_location(ast.Name(id=loc[n.attr], ctx=n.ctx), n)
                    return n
            new_binds = [ast.copy_location(ast.Assign(targets=[ast.Name(id=loc[f], ctx=ast.Store())],
                                                      value=field_expr(e, init.args.args[0].arg, bound)), st) for f, e in fields.items()]
            k = fn.body.index(st)
            rest = [U().visit(x) for x in fn.body[k + 1:]]
            fn.body[k:] = new_binds + rest
            ast.fix_missing_locations(fn)
            count += 1
    return count


# ----------------------------------------------------------------------------------------------------------------------
# function-level forms used by rules that read ONE function closely (c16 reads exec_proof through them): a dispatch through a
# local constant table, the unpacking of a display, block-local constants, loops over a constant range, a dict filled store by
# store.  Each is an equivalence under the stated side conditions and is skipped when they are not met.

def _stores(fn, name):
    return [n for n in ast.walk(fn) if isinstance(n, ast.Name) and n.id == name and isinstance(n.ctx, (ast.Store, ast.Del))]


def _stable(fn, e, params=None) -> bool:
    """`e` denotes the same value wherever it is evaluated in fn: a constant, a name bound at most once (a parameter or a single
    binding), an attribute chain of such a name that is the target of no store in fn, or a tuple of these"""
    if isinstance(e, ast.Constant):
        return True
    if isinstance(e, ast.Tuple):
        return all(_stable(fn, x) for x in e.elts)
    if isinstance(e, ast.Name):
        return len(_stores(fn, e.id)) <= (0 if e.id in {a.arg for a in fn.args.args + fn.args.kwonlyargs} else 1)
    if isinstance(e, ast.Attribute):
        if any(isinstance(n, ast.Attribute) and isinstance(n.ctx, (ast.Store, ast.Del)) and n.attr == e.attr for n in ast.walk(fn)):
            return False
        return _stable(fn, e.value)
    return False


def specialise_table_dispatch(fn: ast.FunctionDef, module: ast.Module | None = None) -> int:
    """`T = {k1: v1, .., kn: vn}` - a local display with distinct constant keys and stable values, bound once and used only as
    `X in T` and `T[X]` - and `if X in T: BODY [else: REST]` become `if X == k1: BODY[T[X] := v1] elif X == k2: .. [else: REST]`.
    With `module`, a table bound once at module level (keys: constants or enum members written `E.member`; values: constants or
    tuples of constants; never stored into, no method called on it, not rebound or shadowed in fn) is read the same way."""
    import copy
    n = 0

    def key_ok(k):
        return isinstance(k, ast.Constant) or (isinstance(k, ast.Attribute) and isinstance(k.value, ast.Name))

    def const_val(x):
        return isinstance(x, ast.Constant) or (isinstance(x, ast.Tuple) and all(const_val(y) for y in x.elts))
    tables = []
    for st in list(fn.body):
        tables.append((st, True))
    if module is not None:
        for st in module.body:
            tables.append((st, False))
    for st, local in tables:
        t = st.targets[0] if isinstance(st, ast.Assign) and len(st.targets) == 1 else (st.target if isinstance(st, ast.AnnAssign) else None)
        v = getattr(st, 'value', None)
        if not (isinstance(t, ast.Name) and isinstance(v, ast.Dict) and v.keys and all(k is not None and key_ok(k) for k in v.keys)):
            continue
        T = t.id
        if len({ast.unparse(k) for k in v.keys}) != len(v.keys):
            continue
        if local:
            if not all(isinstance(k, ast.Constant) for k in v.keys) or len(_stores(fn, T)) != 1 or not all(_stable(fn, x) for x in v.values):
                continue
        else:
            if _stores(fn, T) or T in {a.arg for a in fn.args.args + fn.args.kwonlyargs} or not all(const_val(x) for x in v.values):
                continue
            if sum(1 for x in ast.walk(module) if isinstance(x, ast.Name) and x.id == T and isinstance(x.ctx, (ast.Store, ast.Del))) != 1:
                continue
            mparents = {c: p_ for p_ in ast.walk(module) for c in ast.iter_child_nodes(p_)}
            if any(isinstance(x, ast.Name) and x.id == T and isinstance(x.ctx, ast.Load) and (
                    (isinstance(mparents.get(x), ast.Subscript) and not isinstance(mparents[x].ctx, ast.Load))
                    or (isinstance(mparents.get(x), ast.Attribute) and mparents[x].attr not in ('get', 'keys', 'values', 'items'))
                    or (isinstance(mparents.get(x), ast.Call) and mparents[x].func is not x)
                    or isinstance(mparents.get(x), (ast.Starred, ast.keyword, ast.Return, ast.Assign, ast.AnnAssign))) for x in ast.walk(module)):
                continue                                               # stored into, passed on or aliased somewhere in the module
            if any(isinstance(x, ast.Global) and T in x.names for x in ast.walk(module)):
                continue
        parents = {c: p for p in ast.walk(fn) for c in ast.iter_child_nodes(p)}
        uses = [x for x in ast.walk(fn) if isinstance(x, ast.Name) and x.id == T and isinstance(x.ctx, ast.Load)]

        def use_ok(u):
            p = parents.get(u)
            if isinstance(p, ast.Subscript) and p.value is u and isinstance(p.ctx, ast.Load) and isinstance(p.slice, ast.Name):
                return True
            return isinstance(p, ast.Compare) and len(p.ops) == 1 and isinstance(p.ops[0], ast.In) and p.comparators[0] is u \
                and isinstance(p.left, ast.Name) and isinstance(parents.get(p), ast.If) and parents[p].test is p
        if not uses or not all(use_ok(u) for u in uses):
            continue
        ifs = [parents[parents[u]] for u in uses if isinstance(parents.get(u), ast.Compare)]
        subs = [parents[u] for u in uses if isinstance(parents.get(u), ast.Subscript)]
        # every T[X] sits in the body of an `if X in T` on the same X, and X is not rebound there
        def covered(s):
            return any(any(s is y for y in ast.walk(ast.Module(body=i.body, type_ignores=[]))) and i.test.left.id == s.slice.id
                       and not any(_stores(b, s.slice.id) for b in i.body) for i in ifs)
        if not ifs or not all(covered(s) for s in subs):
            continue
        for i in ifs:
            X = i.test.left.id
            arms = []
            for k, val in zip(v.keys, v.values):
                body = copy.deepcopy(i.body)

                class R(ast.NodeTransformer):
                    def visit_Subscript(self, s):
                        self.generic_visit(s)
                        if isinstance(s.value, ast.Name) and s.value.id == T and isinstance(s.slice, ast.Name) and s.slice.id == X:
                            return ast.copy_location(copy.deepcopy(val), s)
                        return s
                body = [R().visit(b) for b in body]
                test = ast.copy_location(ast.Compare(left=ast.Name(id=X, ctx=ast.Load()), ops=[ast.Eq()], comparators=[copy.deepcopy(k)]), i.test)
                arms.append((test, body))
            tail = i.orelse
            for test, body in reversed(arms[1:]):
                tail = [ast.copy_location(ast.If(test=test, body=body, orelse=tail), i)]
            i.test, i.body, i.orelse = arms[0][0], arms[0][1], tail
            n += 1
        if local:
            fn.body.remove(st)
    if n:
        ast.fix_missing_locations(fn)
    return n


def _blocks(fn):
    for holder in ast.walk(fn):
        for fld in ('body', 'orelse', 'finalbody'):
            blk = getattr(holder, fld, None)
            if isinstance(blk, list) and blk and isinstance(blk[0], ast.stmt):
                yield blk


def unpack_display_assign(fn: ast.FunctionDef) -> int:
    """`a, b = (e1, e2)` -> `a = e1; b = e2` when no target is read by an element"""
    n = 0
    for blk in _blocks(fn):
        i = 0
        while i < len(blk):
            st = blk[i]
            i += 1
            if not (isinstance(st, ast.Assign) and len(st.targets) == 1 and isinstance(st.targets[0], (ast.Tuple, ast.List))
                    and isinstance(st.value, (ast.Tuple, ast.List)) and len(st.targets[0].elts) == len(st.value.elts)
                    and all(isinstance(t, ast.Name) for t in st.targets[0].elts)
                    and not any(isinstance(x, ast.Starred) for x in st.value.elts)):
                continue
            names = {t.id for t in st.targets[0].elts}
            if len(names) != len(st.targets[0].elts) or any(isinstance(x, ast.Name) and x.id in names for e in st.value.elts for x in ast.walk(e)):
                continue
            new = [ast.copy_location(ast.Assign(targets=[ast.Name(id=t.id, ctx=ast.Store())], value=e), st) for t, e in zip(st.targets[0].elts, st.value.elts)]
            blk[i - 1:i] = new
            i += len(new) - 1
            n += 1
    if n:
        ast.fix_missing_locations(fn)
    return n


def _fold_ints(e):
    """integer arithmetic on constants folded (`0 - 2 - 1` -> `-3`)"""
    class F(ast.NodeTransformer):
        def visit_BinOp(self, b):
            self.generic_visit(b)
            l, r = b.left, b.right

            def iv(x):
                if isinstance(x, ast.Constant) and type(x.value) is int:
                    return x.value
                if isinstance(x, ast.UnaryOp) and isinstance(x.op, ast.USub) and isinstance(x.operand, ast.Constant) and type(x.operand.value) is int:
                    return -x.operand.value
                return None
            a, c = iv(l), iv(r)
            if a is not None and c is not None and isinstance(b.op, (ast.Add, ast.Sub, ast.Mult)):
                val = a + c if isinstance(b.op, ast.Add) else a - c if isinstance(b.op, ast.Sub) else a * c
                out = ast.Constant(value=val) if val >= 0 else ast.UnaryOp(op=ast.USub(), operand=ast.Constant(value=-val))
                return ast.copy_location(out, b)
            return b

        def visit_UnaryOp(self, u):
            self.generic_visit(u)
            if isinstance(u.op, ast.USub) and isinstance(u.operand, ast.UnaryOp) and isinstance(u.operand.op, ast.USub):
                return u.operand.operand
            return u
    return F().visit(e)


def propagate_block_constants(fn: ast.FunctionDef) -> int:
    """within one block, `n = E` with E stable (see _stable; n itself bound only by plain assignments) is substituted into the
    following statements of the block up to the next binding of n; the binding is dropped when nothing reads n any more.  Nested
    lambdas / defs that read n block the substitution (they may run later)."""
    import copy
    total = 0
    for blk in list(_blocks(fn)):
        i = 0
        while i < len(blk):
            st = blk[i]
            i += 1
            if not (isinstance(st, ast.Assign) and len(st.targets) == 1 and isinstance(st.targets[0], ast.Name)):
                continue
            nm, val = st.targets[0].id, st.value
            ok_val = isinstance(val, ast.Constant) or (isinstance(val, (ast.Name, ast.Attribute)) and _stable(fn, val)) \
                or (isinstance(val, ast.UnaryOp) and isinstance(val.operand, ast.Constant))
            if not ok_val or nm in {a.arg for a in fn.args.args}:
                continue
            rest = []
            for s in blk[i:]:
                if any(isinstance(x, ast.Name) and x.id == nm and isinstance(x.ctx, (ast.Store, ast.Del)) for x in ast.walk(s)):
                    break
                rest.append(s)
            if any(isinstance(d, (ast.Lambda, ast.FunctionDef)) and any(isinstance(x, ast.Name) and x.id == nm for x in ast.walk(d))
                   for d in ast.walk(fn) if d is not fn):
                continue

            class S(ast.NodeTransformer):
                hits = 0

                def visit_Name(self, x):
                    if x.id == nm and isinstance(x.ctx, ast.Load):
                        S.hits += 1
                        return ast.copy_location(copy.deepcopy(val), x)
                    return x
            S.hits = 0
            for k, s in enumerate(rest):
                blk[i + k] = _fold_ints(S().visit(s))
            # still read somewhere (after the block, on another path)?  then the binding stays
            still = [x for x in ast.walk(fn) if isinstance(x, ast.Name) and x.id == nm and isinstance(x.ctx, ast.Load)]
            if S.hits and not still:
                blk.pop(i - 1)
                i -= 1
            total += S.hits
    if total:
        ast.fix_missing_locations(fn)
    return total


def unroll_constant_ranges(fn: ast.FunctionDef, limit: int = 4) -> int:
    """`for i in range(C)` (C a literal, at most `limit`; no break / continue / else; i not rebound) -> the body C times with i
    replaced by 0 .. C-1; locals bound in the body and read nowhere outside the loop are renamed apart per copy."""
    import copy
    n = 0
    for blk in list(_blocks(fn)):
        i = 0
        while i < len(blk):
            st = blk[i]
            i += 1
            if not (isinstance(st, ast.For) and isinstance(st.target, ast.Name) and not st.orelse and isinstance(st.iter, ast.Call)
                    and isinstance(st.iter.func, ast.Name) and st.iter.func.id == 'range' and len(st.iter.args) == 1 and not st.iter.keywords
                    and isinstance(st.iter.args[0], ast.Constant) and type(st.iter.args[0].value) is int and 0 <= st.iter.args[0].value <= limit):
                continue
            if any(isinstance(x, (ast.Break, ast.Continue, ast.Return, ast.Lambda, ast.FunctionDef)) for b in st.body for x in ast.walk(b)):
                continue
            iv = st.target.id
            if any(_stores(b, iv) for b in st.body):
                continue
            inside = {id(x) for b in st.body for x in ast.walk(b)}
            # occurrences in another loop that binds the name itself before reading it (its own target, or a plain assignment that
            # comes first in its body) cannot see this loop's binding
            elsewhere = set()
            for other in ast.walk(fn):
                if isinstance(other, ast.For) and other is not st and id(other) not in inside:
                    for nm_ in {x.id for x in ast.walk(other) if isinstance(x, ast.Name)}:
                        own = isinstance(other.target, ast.Name) and other.target.id == nm_
                        if not own:
                            first = next((b for b in other.body if any(isinstance(x, ast.Name) and x.id == nm_ for x in ast.walk(b))), None)
                            own = isinstance(first, (ast.Assign, ast.AnnAssign)) and first.value is not None \
                                and isinstance(first.targets[0] if isinstance(first, ast.Assign) else first.target, ast.Name) \
                                and (first.targets[0] if isinstance(first, ast.Assign) else first.target).id == nm_ \
                                and not any(isinstance(x, ast.Name) and x.id == nm_ for x in ast.walk(first.value)) \
                                and not any(isinstance(x, ast.Name) and x.id == nm_ for x in ast.walk(other.iter))
                        if own and not any(isinstance(x, ast.Name) and x.id == nm_ and id(x) not in {id(y) for y in ast.walk(other)}
                                           and id(x) not in inside and x is not st.target for x in ast.walk(fn)):
                            elsewhere |= {id(x) for x in ast.walk(other) if isinstance(x, ast.Name) and x.id == nm_}
            if any(isinstance(x, ast.Name) and x.id == iv and id(x) not in inside and id(x) not in elsewhere and x is not st.target
                   for x in ast.walk(fn)):
                continue                                                # the loop variable is read after the loop
            locs = {x.id for b in st.body for x in ast.walk(b) if isinstance(x, ast.Name) and isinstance(x.ctx, ast.Store)}
            private = {l for l in locs if not any(isinstance(x, ast.Name) and x.id == l and id(x) not in inside and id(x) not in elsewhere
                                                  for x in ast.walk(fn))}
            out = []
            for k in range(st.iter.args[0].value):
                class U(ast.NodeTransformer):
                    def visit_Name(self, x):
                        if x.id == iv and isinstance(x.ctx, ast.Load):
                            return ast.copy_location(ast.Constant(value=k), x)
                        if x.id in private:
                            return ast.copy_location(ast.Name(id=f'{x.id}_{k}', ctx=x.ctx), x)
                        return x
                out += [_fold_ints(U().visit(copy.deepcopy(b))) for b in st.body]
            blk[i - 1:i] = out or [ast.copy_location(ast.Pass(), st)]
            i += len(out) - 1 if out else 0
            n += 1
    if n:
        ast.fix_missing_locations(fn)
    return n


def dict_stores_to_display(fn: ast.FunctionDef) -> int:
    """`D = {}` followed in the same block by `D[c1] = n1 .. D[ck] = nk` (constant keys, distinct; values names or constants that
    are not rebound in between; D not mentioned otherwise up to the last store) -> `D = {c1: n1, .., ck: nk}` at the last store."""
    n = 0
    for blk in list(_blocks(fn)):
        i = 0
        while i < len(blk):
            st = blk[i]
            i += 1
            t = st.targets[0] if isinstance(st, ast.Assign) and len(st.targets) == 1 else (st.target if isinstance(st, ast.AnnAssign) else None)
            v = getattr(st, 'value', None)
            if not (isinstance(t, ast.Name) and isinstance(v, ast.Dict) and not v.keys):
                continue
            D = t.id
            stores, j = [], i
            while j < len(blk):
                s = blk[j]
                mentions = any(isinstance(x, ast.Name) and x.id == D for x in ast.walk(s))
                if isinstance(s, ast.Assign) and len(s.targets) == 1 and isinstance(s.targets[0], ast.Subscript) \
                        and isinstance(s.targets[0].value, ast.Name) and s.targets[0].value.id == D \
                        and isinstance(s.targets[0].slice, ast.Constant) and isinstance(s.value, (ast.Name, ast.Constant)) \
                        and not (isinstance(s.value, ast.Name) and s.value.id == D):
                    stores.append(j)
                elif mentions:
                    break
                j += 1
            if not stores:
                continue
            last = stores[-1]
            keys = [blk[k].targets[0].slice for k in stores]
            vals = [blk[k].value for k in stores]
            if len({repr(k.value) for k in keys}) != len(keys):
                continue
            rebound = False
            for k, val in zip(stores, vals):
                if isinstance(val, ast.Name) and any(_stores(s, val.id) for s in blk[k + 1:last + 1]):
                    rebound = True
            if rebound:
                continue
            disp = ast.copy_location(ast.Assign(targets=[ast.Name(id=D, ctx=ast.Store())], value=ast.Dict(keys=keys, values=vals)), blk[last])
            blk[last] = disp
            for k in reversed(stores[:-1]):
                blk.pop(k)
            blk.pop(i - 1)
            i -= 1
            n += 1
    if n:
        ast.fix_missing_locations(fn)
    return n


def sum_generator_to_loop(fn: ast.FunctionDef) -> int:
    """`X = sum(E for v in IT [if C])` -> `X = 0; for v in IT: [if C:] X += E`; a sum inside an arithmetic expression whose other
    leaves are names, constants and subscripts (nothing that could observe the order of evaluation) is bound to a temporary the
    same way first.  Only at statement level (Assign / AnnAssign / Return), one generator, names of the generator not used after."""
    n = 0
    k = [0]
    for blk in list(_blocks(fn)):
        i = 0
        while i < len(blk):
            st = blk[i]
            i += 1
            if not isinstance(st, (ast.Assign, ast.AnnAssign, ast.Return)) or st.value is None:
                continue
            sums = [c for c in ast.walk(st.value) if isinstance(c, ast.Call) and isinstance(c.func, ast.Name) and c.func.id == 'sum'
                    and len(c.args) == 1 and not c.keywords and isinstance(c.args[0], (ast.GeneratorExp, ast.ListComp))
                    and len(c.args[0].generators) == 1 and not c.args[0].generators[0].is_async]
            if len(sums) != 1:
                continue
            call = sums[0]
            # the rest of the value: arithmetic over names / constants / subscripts only
            def quiet(e):
                if e is call:
                    return True
                if isinstance(e, (ast.Name, ast.Constant)):
                    return True
                if isinstance(e, ast.BinOp):
                    return quiet(e.left) and quiet(e.right)
                if isinstance(e, ast.UnaryOp):
                    return quiet(e.operand)
                if isinstance(e, ast.Subscript):
                    return quiet(e.value) and quiet(e.slice)
                return False
            if not quiet(st.value):
                continue
            gen = call.args[0].generators[0]
            direct = st.value is call and isinstance(st, (ast.Assign, ast.AnnAssign)) and \
                isinstance(st.targets[0] if isinstance(st, ast.Assign) else st.target, ast.Name) and (not isinstance(st, ast.Assign) or len(st.targets) == 1)
            if direct:
                acc = (st.targets[0] if isinstance(st, ast.Assign) else st.target).id
                if any(isinstance(x, ast.Name) and x.id == acc for x in ast.walk(call)):
                    continue
            else:
                acc = f's{k[0]}_'
                k[0] += 1
            add = ast.AugAssign(target=ast.Name(id=acc, ctx=ast.Store()), op=ast.Add(), value=call.args[0].elt)
            body = [add]
            for c in reversed(gen.ifs):
                body = [ast.If(test=c, body=body, orelse=[])]
            loop = ast.For(target=gen.target, iter=gen.iter, body=body, orelse=[])
            init = ast.Assign(targets=[ast.Name(id=acc, ctx=ast.Store())], value=ast.Constant(value=0))
            new = [ast.copy_location(init, st), ast.copy_location(loop, st)]
            if direct:
                blk[i - 1:i] = new
            else:
                class R(ast.NodeTransformer):
                    def visit_Call(self, c):
                        if c is call:
                            return ast.copy_location(ast.Name(id=acc, ctx=ast.Load()), c)
                        return self.generic_visit(c)
                st.value = R().visit(st.value)
                blk[i - 1:i - 1] = new
            for x in new:
                ast.fix_missing_locations(x)
            i += len(new) - (1 if direct else 0)
            n += 1
    return n


def index_scan_to_enumerate(fn: ast.FunctionDef) -> int:
    """`for p in range(LO, len(S))` (or `range(len(S))`; the bound may be a local bound once to len(S)) whose body reads p and does
    not bind it -> `for k_p, ch_p in enumerate(S[LO:])` with `S[p]` replaced by `ch_p` and every other read of p - in the body and
    after the loop - by `LO + k_p`.  Both loops visit the same positions in the same order and leave the same last position; LO is a
    sum of names and non-negative constants (a negative lower bound would make the slice count from the end)."""
    import copy
    n = 0

    def len_of(e):
        if isinstance(e, ast.Call) and isinstance(e.func, ast.Name) and e.func.id == 'len' and len(e.args) == 1 and isinstance(e.args[0], ast.Name):
            return e.args[0].id
        if isinstance(e, ast.Name):
            defs = [a for a in ast.walk(fn) if isinstance(a, ast.Assign) and len(a.targets) == 1 and isinstance(a.targets[0], ast.Name) and a.targets[0].id == e.id]
            if len(defs) == 1 and len(_stores(fn, e.id)) == 1:
                return len_of(defs[0].value) if not isinstance(defs[0].value, ast.Name) else None
        return None

    def nonneg(e):
        if isinstance(e, ast.Constant):
            return type(e.value) is int and e.value >= 0
        if isinstance(e, ast.Name):
            return True
        if isinstance(e, ast.BinOp) and isinstance(e.op, ast.Add):
            return nonneg(e.left) and nonneg(e.right)
        return False
    for blk in list(_blocks(fn)):
        for i, st in enumerate(blk):
            if not (isinstance(st, ast.For) and isinstance(st.target, ast.Name) and not st.orelse and isinstance(st.iter, ast.Call)
                    and isinstance(st.iter.func, ast.Name) and st.iter.func.id == 'range' and not st.iter.keywords and len(st.iter.args) in (1, 2)):
                continue
            p = st.target.id
            S = len_of(st.iter.args[-1])
            lo = st.iter.args[0] if len(st.iter.args) == 2 else ast.Constant(value=0)
            if S is None or not nonneg(lo) or len(_stores(fn, p)) != 1 or len(_stores(fn, S)) > 0 and S not in {a.arg for a in fn.args.args}:
                continue
            if any(isinstance(x, ast.Name) and x.id in (p, S) for x in ast.walk(lo)):
                continue
            # names in LO must not be rebound inside the loop (the slice is taken once; range's bound is computed once, too)
            k, ch = f'k_{p}', f'ch_{p}'
            if any(isinstance(x, ast.Name) and x.id in (k, ch) for x in ast.walk(fn)):
                continue
            pos = ast.Name(id=k, ctx=ast.Load()) if isinstance(lo, ast.Constant) and lo.value == 0 else \
                ast.BinOp(left=copy.deepcopy(lo), op=ast.Add(), right=ast.Name(id=k, ctx=ast.Load()))

            class R(ast.NodeTransformer):
                def visit_Subscript(self, s):
                    if isinstance(s.value, ast.Name) and s.value.id == S and isinstance(s.slice, ast.Name) and s.slice.id == p and isinstance(s.ctx, ast.Load):
                        return ast.copy_location(ast.Name(id=ch, ctx=ast.Load()), s)
                    return self.generic_visit(s)

                def visit_Name(self, x):
                    if x.id == p and isinstance(x.ctx, ast.Load):
                        return ast.copy_location(copy.deepcopy(pos), x)
                    return x
            st.body = [R().visit(b) for b in st.body]
            src = ast.Name(id=S, ctx=ast.Load()) if isinstance(lo, ast.Constant) and lo.value == 0 else \
                ast.Subscript(value=ast.Name(id=S, ctx=ast.Load()), slice=ast.Slice(lower=copy.deepcopy(lo), upper=None, step=None), ctx=ast.Load())
            st.iter = ast.copy_location(ast.Call(func=ast.Name(id='enumerate', ctx=ast.Load()), args=[src], keywords=[]), st.iter)
            st.target = ast.copy_location(ast.Tuple(elts=[ast.Name(id=k, ctx=ast.Store()), ast.Name(id=ch, ctx=ast.Store())], ctx=ast.Store()), st.target)
            # reads of p after the loop (anywhere else in the function: p is bound by this loop only)
            inside = {id(x) for x in ast.walk(st)}

            class A(ast.NodeTransformer):
                def visit_Name(self, x):
                    if x.id == p and isinstance(x.ctx, ast.Load) and id(x) not in inside:
                        return ast.copy_location(copy.deepcopy(pos), x)
                    return x
            for holder in [fn]:
                holder.body = [A().visit(b) if b is not st else b for b in holder.body]
            n += 1
    if n:
        ast.fix_missing_locations(fn)
    return n


def bound_generator_to_list(tree: ast.Module) -> int:
    """`X = g(args)` with g a module-level generator function, X bound once and read once - in the statement that follows, as `*X`
    in a tuple / list display or as the argument of tuple() / list(), before anything else that statement evaluates - is the list of
    what g yields, made where it is consumed: `X = []; X.extend(g(args))` (extend_by_generator_to_appends then writes the body out).
    A display `(*X, e1, .., ek)` that starts with the unpacked list becomes `X.append(e1) .. X.append(ek)` and `tuple(X)`."""
    n = 0
    gens = set()
    for g in tree.body:
        if isinstance(g, ast.FunctionDef) and not g.decorator_list:
            inner = {id(x) for h in ast.walk(g) if isinstance(h, (ast.FunctionDef, ast.Lambda)) and h is not g for x in ast.walk(h)}
            if any(isinstance(x, (ast.Yield, ast.YieldFrom)) and id(x) not in inner for x in ast.walk(g)):
                gens.add(g.name)
    if not gens:
        return 0
    for fn in [x for x in ast.walk(tree) if isinstance(x, ast.FunctionDef) and x.name not in gens]:
        stores, loads = _counts(fn)
        for blk in list(_blocks(fn)):
            i = 0
            while i + 1 < len(blk):
                st, nxt = blk[i], blk[i + 1]
                i += 1
                if not (isinstance(st, ast.Assign) and len(st.targets) == 1 and isinstance(st.targets[0], ast.Name) and isinstance(st.value, ast.Call)
                        and isinstance(st.value.func, ast.Name) and st.value.func.id in gens):
                    continue
                X = st.targets[0].id
                if stores.get(X, 0) != 1 or loads.get(X, 0) != 1 or _find_use(nxt, X) != 'ok':
                    continue
                parents = {c: p for p in ast.walk(nxt) for c in ast.iter_child_nodes(p)}
                use = next(x for x in ast.walk(nxt) if isinstance(x, ast.Name) and x.id == X)
                par = parents.get(use)
                disp = None
                if isinstance(par, ast.Starred) and isinstance(parents.get(par), (ast.Tuple, ast.List)) and parents[par].elts[0] is par \
                        and not any(isinstance(e, ast.Starred) for e in parents[par].elts[1:]):
                    disp = parents[par]
                elif isinstance(par, ast.Call) and isinstance(par.func, ast.Name) and par.func.id in ('tuple', 'list') and len(par.args) == 1 and not par.keywords:
                    pass
                else:
                    continue
                call = st.value
                new = [ast.copy_location(ast.Assign(targets=[ast.Name(id=X, ctx=ast.Store())], value=ast.List(elts=[], ctx=ast.Load())), st),
                       ast.copy_location(ast.Expr(value=ast.Call(func=ast.Attribute(value=ast.Name(id=X, ctx=ast.Load()), attr='extend', ctx=ast.Load()),
                                                                 args=[call], keywords=[])), st)]
                if disp is not None:
                    # the elements after the unpacked list are appended to it (nothing else reads X), the display is the whole list
                    for e in disp.elts[1:]:
                        new.append(ast.copy_location(ast.Expr(value=ast.Call(func=ast.Attribute(value=ast.Name(id=X, ctx=ast.Load()), attr='append', ctx=ast.Load()),
                                                                             args=[e], keywords=[])), nxt))
                    kind = 'tuple' if isinstance(disp, ast.Tuple) else 'list'
                    repl = ast.copy_location(ast.Call(func=ast.Name(id=kind, ctx=ast.Load()), args=[ast.Name(id=X, ctx=ast.Load())], keywords=[]), disp)

                    class R(ast.NodeTransformer):
                        def visit_Tuple(self, t):
                            return repl if t is disp else self.generic_visit(t)
                        visit_List = visit_Tuple
                    blk[i] = R().visit(nxt)
                for x in new:
                    ast.fix_missing_locations(x)
                blk[i - 1:i] = new
                i += len(new) - 1
                n += 1
    return n



def fold_reflective_calls(fn: ast.FunctionDef) -> int:
    """constant-folds three spellings left behind when a table row is substituted into its dispatch:
    `getattr(o, 'name')` -> `o.name`;  `[E for v in range(c1, c2)]` (literal bounds, at most 6 turns, no condition) -> the display
    of E with v = c1 .. c2-1;  `f(a, *[x, y], b)` -> `f(a, x, y, b)`."""
    import copy
    n = [0]

    class F(ast.NodeTransformer):
        def visit_Call(self, c):
            self.generic_visit(c)
            if isinstance(c.func, ast.Name) and c.func.id == 'getattr' and len(c.args) == 2 and not c.keywords \
                    and isinstance(c.args[1], ast.Constant) and isinstance(c.args[1].value, str) and c.args[1].value.isidentifier():
                n[0] += 1
                return ast.copy_location(ast.Attribute(value=c.args[0], attr=c.args[1].value, ctx=ast.Load()), c)
            if any(isinstance(a, ast.Starred) and isinstance(a.value, (ast.List, ast.Tuple)) and not any(isinstance(e, ast.Starred) for e in a.value.elts)
                   for a in c.args):
                new = []
                for a in c.args:
                    if isinstance(a, ast.Starred) and isinstance(a.value, (ast.List, ast.Tuple)) and not any(isinstance(e, ast.Starred) for e in a.value.elts):
                        new.extend(a.value.elts)
                    else:
                        new.append(a)
                c.args = new
                n[0] += 1
            return c

        def visit_List(self, d):
            self.generic_visit(d)
            if any(isinstance(a, ast.Starred) and isinstance(a.value, (ast.List, ast.Tuple)) and not any(isinstance(e, ast.Starred) for e in a.value.elts)
                   for a in d.elts):
                new = []
                for a in d.elts:
                    if isinstance(a, ast.Starred) and isinstance(a.value, (ast.List, ast.Tuple)) and not any(isinstance(e, ast.Starred) for e in a.value.elts):
                        new.extend(a.value.elts)                      # [a, *[x, y]] is [a, x, y]
                    else:
                        new.append(a)
                d.elts = new
                n[0] += 1
            return d
        visit_Tuple = visit_List

        def visit_ListComp(self, lc):
            self.generic_visit(lc)
            if len(lc.generators) != 1 or lc.generators[0].ifs or lc.generators[0].is_async or not isinstance(lc.generators[0].target, ast.Name):
                return lc
            it = lc.generators[0].iter
            if not (isinstance(it, ast.Call) and isinstance(it.func, ast.Name) and it.func.id == 'range' and not it.keywords and len(it.args) in (1, 2)):
                return lc
            args = [_fold_ints(copy.deepcopy(a)) for a in it.args]
            if not all(isinstance(a, ast.Constant) and type(a.value) is int for a in args):
                return lc
            lo, hi = (0, args[0].value) if len(args) == 1 else (args[0].value, args[1].value)
            if hi - lo > 6:
                return lc
            v = lc.generators[0].target.id
            elts = []
            for k in range(lo, max(lo, hi)):
                class S(ast.NodeTransformer):
                    def visit_Name(self, x):
                        return ast.copy_location(ast.Constant(value=k), x) if x.id == v and isinstance(x.ctx, ast.Load) else x
                elts.append(_fold_ints(S().visit(copy.deepcopy(lc.elt))))
            n[0] += 1
            return ast.copy_location(ast.List(elts=elts, ctx=ast.Load()), lc)
    for i, st in enumerate(fn.body):
        fn.body[i] = F().visit(st)
    if n[0]:
        ast.fix_missing_locations(fn)
    return n[0]


def fold_arm_temporaries(fn: ast.FunctionDef) -> int:
    """a local bound in several arms, each binding read exactly once - by the statement that follows it in the same block, before
    anything impure (see _find_use) - and nowhere else: every binding is folded into its reader.  (fold_temporaries handles the
    locals bound once.)"""
    n = 0
    stores, loads = _counts(fn)
    for x in [k for k, c in stores.items() if c > 1 and loads.get(k, 0) == c and k not in {a.arg for a in fn.args.args}]:
        sites = []
        for blk in _blocks(fn):
            for i, st in enumerate(blk):
                if isinstance(st, ast.Assign) and len(st.targets) == 1 and isinstance(st.targets[0], ast.Name) and st.targets[0].id == x \
                        and i + 1 < len(blk) and _find_use(blk[i + 1], x) == 'ok' \
                        and not any(isinstance(y, ast.Name) and y.id == x for y in ast.walk(st.value)):
                    sites.append((blk, st))
        if len(sites) != stores[x]:
            continue
        for blk, st in sites:
            i = next(j for j, y in enumerate(blk) if y is st)
            blk[i + 1] = ast.fix_missing_locations(_Subst(x, st.value).visit(blk[i + 1]))
            blk.pop(i)
            n += 1
    return n


def drop_dead_constant_bindings(fn: ast.FunctionDef) -> int:
    """`n = <constant>` where nothing in the function reads n"""
    n = 0
    _st, loads = _counts(fn)
    for blk in _blocks(fn):
        for st in list(blk):
            if isinstance(st, ast.Assign) and len(st.targets) == 1 and isinstance(st.targets[0], ast.Name) and isinstance(st.value, ast.Constant) \
                    and loads.get(st.targets[0].id, 0) == 0 and len(blk) > 1:
                blk.remove(st)
                n += 1
    return n


def specialise_tables(fn: ast.FunctionDef, module: ast.Module | None = None) -> int:
    """a dispatch through a constant table written out per row (specialise_table_dispatch), and the row's values carried into the
    code that used them (unpacking, block constants, constant ranges, reflective spellings, single-use temporaries).  Only a
    function in which a table dispatch was found is touched.  -> number of dispatches specialised"""
    k = specialise_table_dispatch(fn, module)
    if not k:
        return 0
    for _ in range(4):
        j = unpack_display_assign(fn) + propagate_block_constants(fn) + unroll_constant_ranges(fn) + dict_stores_to_display(fn) \
            + fold_reflective_calls(fn)
        j += fold_temporaries(ast.Module(body=[fn], type_ignores=[])) + fold_arm_temporaries(fn)
        if not j:
            break
    drop_dead_constant_bindings(fn)
    return k


def inline_effectful_predicates(tree: ast.Module) -> int:
    """`if _h(args): A [else: B]` where `_h` is a private module-level function referenced only there, whose every `return` hands
    back the literal True or False: the helper's body is written in place with A where it returned True and B where it returned
    False (the body is first restructured so that each return is the last thing done on its path).  Parameters are read-only in the
    helper and the arguments plain names; the helper's locals are renamed apart.  A and B are short (they are duplicated)."""
    import copy
    count = 0
    for g in [n for n in list(tree.body) if isinstance(n, ast.FunctionDef) and n.name.startswith('_') and not n.name.startswith('__')]:
        if g.decorator_list or g.args.vararg or g.args.kwarg or g.args.kwonlyargs or g.args.defaults or g.args.posonlyargs:
            continue
        refs = [x for x in ast.walk(tree) if isinstance(x, ast.Name) and x.id == g.name]
        if len(refs) != 1 or any(isinstance(x, ast.Constant) and x.value == g.name for x in ast.walk(tree)):
            continue
        rets = [r for r in ast.walk(g) if isinstance(r, ast.Return)]
        if not rets or not all(isinstance(r.value, ast.Constant) and isinstance(r.value.value, bool) for r in rets):
            continue
        if any(isinstance(x, (ast.FunctionDef, ast.Lambda, ast.Yield, ast.YieldFrom, ast.Global, ast.Nonlocal)) and x is not g for x in ast.walk(g)):
            continue
        params = [a.arg for a in g.args.args]
        if any(isinstance(x, ast.Name) and x.id in params and isinstance(x.ctx, (ast.Store, ast.Del)) for x in ast.walk(g)):
            continue
        # the use: the whole test of an `if` inside some function
        site = None
        for f in [x for x in ast.walk(tree) if isinstance(x, ast.FunctionDef) and x is not g]:
            for blk in _blocks(f):
                for i, st in enumerate(blk):
                    if isinstance(st, ast.If) and isinstance(st.test, ast.Call) and st.test.func is refs[0]:
                        site = (f, blk, i, st)
        if site is None:
            continue
        f, blk, i, st = site
        call = st.test
        if call.keywords or len(call.args) != len(params) or not all(isinstance(a, ast.Name) for a in call.args):
            continue
        if len(st.body) > 3 or len(st.orelse) > 3:
            continue
        body0 = [x for x in g.body if not (isinstance(x, ast.Expr) and isinstance(x.value, ast.Constant))]
        flat = _assign_returns([copy.deepcopy(x) for x in body0], '__verdict')
        if flat is None:
            continue
        stored = {x.id for x in ast.walk(g) if isinstance(x, ast.Name) and isinstance(x.ctx, (ast.Store, ast.Del))}
        caller_names = {x.id for x in ast.walk(f) if isinstance(x, ast.Name)} | {a.arg for a in f.args.args}
        ren = {v: f'{v}__{g.name}' for v in stored if v in caller_names}
        sub = {p: a.id for p, a in zip(params, call.args)}
        if any(len(_stores(f, a.id)) > 1 for a in call.args):
            pass                                            # rebinding of an argument elsewhere does not matter: it is read here, now

        class R(ast.NodeTransformer):
            def visit_Name(self, x):
                if x.id in sub and isinstance(x.ctx, ast.Load):
                    x.id = sub[x.id]
                elif x.id in ren:
                    x.id = ren[x.id]
                return x
        ok = [True]

        def place(stmts):
            out = []
            for s_ in stmts:
                if isinstance(s_, ast.Assign) and len(s_.targets) == 1 and isinstance(s_.targets[0], ast.Name) and s_.targets[0].id == '__verdict':
                    if s_ is not stmts[-1]:
                        ok[0] = False
                    out += [copy.deepcopy(b) for b in (st.body if s_.value.value else st.orelse)]
                    continue
                for fld in ('body', 'orelse', 'finalbody'):
                    sub_ = getattr(s_, fld, None)
                    if isinstance(sub_, list) and sub_ and isinstance(sub_[0], ast.stmt):
                        new = place(sub_)
                        setattr(s_, fld, new or ([ast.copy_location(ast.Pass(), s_)] if fld == 'body' else []))
                out.append(s_)
            return out
        new = place([R().visit(x) for x in flat])
        if not ok[0] or any(isinstance(x, ast.Name) and x.id == '__verdict' for y in new for x in ast.walk(y)):
            continue
        for x in new:
            ast.fix_missing_locations(x)
        blk[i:i + 1] = new
        tree.body = [x for x in tree.body if x is not g]
        count += 1
    return count


def get_or_insert_to_membership(tree: ast.Module) -> int:
    """`v = D.get(k)` followed by `if v is None: v = E; D[k] = v` (the two in either order, no else) -> `if k not in D: D[k] = E`
    and `v = D[k]`.  The two agree unless D maps k to None: E and every other value stored into D in the module are calls of len(),
    integer literals or arithmetic on these.  D is a name or an attribute chain, k a name."""
    count = 0

    def intish(e):
        if isinstance(e, ast.Constant):
            return type(e.value) is int
        if isinstance(e, ast.Call):
            return isinstance(e.func, ast.Name) and e.func.id == 'len' and len(e.args) == 1
        if isinstance(e, ast.BinOp) and isinstance(e.op, (ast.Add, ast.Sub, ast.Mult)):
            return intish(e.left) and intish(e.right)
        return False
    for blk in list(_blocks(tree)):
        i = 0
        while i + 1 < len(blk):
            a, b = blk[i], blk[i + 1]
            i += 1
            if not (isinstance(a, ast.Assign) and len(a.targets) == 1 and isinstance(a.targets[0], ast.Name) and isinstance(a.value, ast.Call)
                    and isinstance(a.value.func, ast.Attribute) and a.value.func.attr == 'get' and len(a.value.args) == 1 and not a.value.keywords
                    and isinstance(a.value.args[0], ast.Name) and isinstance(a.value.func.value, (ast.Name, ast.Attribute))):
                continue
            v, k, D = a.targets[0].id, a.value.args[0].id, a.value.func.value
            Dt = ast.unparse(D)
            if not (isinstance(b, ast.If) and not b.orelse and isinstance(b.test, ast.Compare) and len(b.test.ops) == 1 and isinstance(b.test.ops[0], ast.Is)
                    and isinstance(b.test.left, ast.Name) and b.test.left.id == v and isinstance(b.test.comparators[0], ast.Constant)
                    and b.test.comparators[0].value is None and len(b.body) == 2):
                continue
            bind = [s for s in b.body if isinstance(s, ast.Assign) and len(s.targets) == 1 and isinstance(s.targets[0], ast.Name) and s.targets[0].id == v]
            store = [s for s in b.body if isinstance(s, ast.Assign) and len(s.targets) == 1 and isinstance(s.targets[0], ast.Subscript)
                     and ast.unparse(s.targets[0].value) == Dt and isinstance(s.targets[0].slice, ast.Name) and s.targets[0].slice.id == k]
            if len(bind) != 1 or len(store) != 1 or v == k:
                continue
            E = bind[0].value
            if b.body[0] is store[0]:
                # D[k] = E' first, then v = ..: accept `D[k] = E; v = D[k]`-like only in the simple order below
                continue
            if not (isinstance(store[0].value, ast.Name) and store[0].value.id == v) or not intish(E):
                continue
            if any(isinstance(x, ast.Name) and x.id in (v,) for x in ast.walk(E)):
                continue
            others = [s for s in ast.walk(tree) if isinstance(s, ast.Assign) and s is not store[0] and any(
                isinstance(t, ast.Subscript) and ast.unparse(t.value) == Dt for t in s.targets)]
            if not all(intish(s.value) for s in others):
                continue
            import copy
            test = ast.Compare(left=ast.Name(id=k, ctx=ast.Load()), ops=[ast.NotIn()], comparators=[copy.deepcopy(D)])
            st1 = ast.If(test=test, body=[ast.Assign(targets=[ast.Subscript(value=copy.deepcopy(D), slice=ast.Name(id=k, ctx=ast.Load()), ctx=ast.Store())],
                                                    value=E)], orelse=[])
            st2 = ast.Assign(targets=[ast.Name(id=v, ctx=ast.Store())],
                             value=ast.Subscript(value=copy.deepcopy(D), slice=ast.Name(id=k, ctx=ast.Load()), ctx=ast.Load()))
            blk[i - 1:i + 1] = [ast.fix_missing_locations(ast.copy_location(st1, b)), ast.fix_missing_locations(ast.copy_location(st2, b))]
            count += 1
    return count


def fold_list_building(tree: ast.Module) -> int:
    """`x = [a, b]` directly followed by `x.append(e)` / `x.extend(E)` statements and then by the ONE statement that reads x (once,
    before anything impure) is the display `[a, b, e, *E]` bound to x - which fold_temporaries then carries into its reader.  x is
    bound once and every other occurrence of x is one of those mutator statements."""
    n = 0
    for fn in [f for f in ast.walk(tree) if isinstance(f, ast.FunctionDef)]:
        stores, loads = _counts(fn)
        for blk in list(_blocks(fn)):
            i = 0
            while i < len(blk):
                st = blk[i]
                i += 1
                t = st.targets[0] if isinstance(st, ast.Assign) and len(st.targets) == 1 else (st.target if isinstance(st, ast.AnnAssign) else None)
                v = getattr(st, 'value', None)
                if not (isinstance(t, ast.Name) and isinstance(v, ast.List) and stores.get(t.id, 0) == 1):
                    continue
                x = t.id
                j = i
                elts = list(v.elts)
                while j < len(blk):
                    s = blk[j]
                    if isinstance(s, ast.Expr) and isinstance(s.value, ast.Call) and isinstance(s.value.func, ast.Attribute) \
                            and isinstance(s.value.func.value, ast.Name) and s.value.func.value.id == x and s.value.func.attr in ('append', 'extend') \
                            and len(s.value.args) == 1 and not s.value.keywords \
                            and not any(isinstance(y, ast.Name) and y.id == x for y in ast.walk(s.value.args[0])):
                        a = s.value.args[0]
                        elts.append(a if s.value.func.attr == 'append' else ast.Starred(value=a, ctx=ast.Load()))
                        j += 1
                    else:
                        break
                k = j - i
                if k == 0 or j >= len(blk) or loads.get(x, 0) != k + 1 or _find_use(blk[j], x) != 'ok':
                    continue
                new = ast.copy_location(ast.Assign(targets=[ast.Name(id=x, ctx=ast.Store())], value=ast.List(elts=elts, ctx=ast.Load())), blk[j - 1])
                blk[i - 1:j] = [ast.fix_missing_locations(new)]
                n += 1
    return n


def inline_private_byte_constants(tree: ast.Module) -> int:
    """a private module-level constant `_NAME = bytes([<constants / enum members>])`, bound once and never shadowed, is its defining
    expression wherever a function reads it (bytes are immutable: sharing the object cannot be observed)"""
    import copy
    n = 0
    consts = {}
    for st in tree.body:
        if isinstance(st, ast.Assign) and len(st.targets) == 1 and isinstance(st.targets[0], ast.Name) and st.targets[0].id.startswith('_') \
                and isinstance(st.value, ast.Call) and isinstance(st.value.func, ast.Name) and st.value.func.id == 'bytes' and len(st.value.args) == 1 \
                and isinstance(st.value.args[0], (ast.List, ast.Tuple)) and not st.value.keywords \
                and all(isinstance(e, ast.Constant) or (isinstance(e, ast.Attribute) and isinstance(e.value, ast.Name)) for e in st.value.args[0].elts):
            consts[st.targets[0].id] = st.value
    for name in list(consts):
        if sum(1 for x in ast.walk(tree) if isinstance(x, ast.Name) and x.id == name and isinstance(x.ctx, (ast.Store, ast.Del))) != 1 \
                or any(isinstance(a, ast.arg) and a.arg == name for a in ast.walk(tree)):
            del consts[name]
    if not consts:
        return 0

    class R(ast.NodeTransformer):
        def visit_Name(self, x):
            nonlocal n
            if isinstance(x.ctx, ast.Load) and x.id in consts:
                n += 1
                return ast.copy_location(copy.deepcopy(consts[x.id]), x)
            return x
    for f in [x for x in ast.walk(tree) if isinstance(x, ast.FunctionDef)]:
        f.body = [R().visit(b) for b in f.body]
    if n:
        ast.fix_missing_locations(tree)
    return n


def dissolve_missing_dicts(tree: ast.Module) -> int:
    """a module-level `class K(dict)` whose only member is
           def __missing__(self, k): v = E; self[k] = v; return v          (E over len(self) and constants)
    held in a field made by `self.F = K()`: a lookup `x = self.F[k]` is `if k not in self.F: self.F[k] = E'` followed by
    `x = self.F[k]` (E' = E with `self` read as `self.F`), and the field is a plain dict.  Only when every subscript load of the
    field is such a statement (k a plain name); otherwise nothing is changed."""
    import copy
    n = 0
    for K in [c for c in tree.body if isinstance(c, ast.ClassDef)]:
        if len(K.bases) != 1 or ast.unparse(K.bases[0]).split('[')[0] != 'dict' or K.decorator_list:
            continue
        body = [x for x in K.body if not (isinstance(x, ast.Expr) and isinstance(x.value, ast.Constant))]
        if len(body) != 1 or not isinstance(body[0], ast.FunctionDef) or body[0].name != '__missing__' or len(body[0].args.args) != 2:
            continue
        m = body[0]
        S, kp = m.args.args[0].arg, m.args.args[1].arg
        mb = [x for x in m.body if not (isinstance(x, ast.Expr) and isinstance(x.value, ast.Constant))]
        if not (len(mb) == 3 and isinstance(mb[0], ast.Assign) and len(mb[0].targets) == 1 and isinstance(mb[0].targets[0], ast.Name)
                and isinstance(mb[1], ast.Assign) and ast.unparse(mb[1].targets[0]) == f'{S}[{kp}]' and isinstance(mb[1].value, ast.Name)
                and mb[1].value.id == mb[0].targets[0].id and isinstance(mb[2], ast.Return) and isinstance(mb[2].value, ast.Name)
                and mb[2].value.id == mb[0].targets[0].id):
            continue
        E = mb[0].value
        if any(isinstance(x, ast.Name) and x.id == kp for x in ast.walk(E)) or any(isinstance(x, (ast.Call,)) and not (isinstance(x.func, ast.Name) and x.func.id == 'len')
                                                                                     for x in ast.walk(E)):
            continue
        # the fields made from K
        makes = [a for a in ast.walk(tree) if isinstance(a, (ast.Assign, ast.AnnAssign)) and isinstance(a.value, ast.Call) and isinstance(a.value.func, ast.Name)
                 and a.value.func.id == K.name and not a.value.args and not a.value.keywords]
        other_refs = [x for x in ast.walk(tree) if isinstance(x, ast.Name) and x.id == K.name and not any(x is a.value.func for a in makes)]
        if not makes or other_refs:
            continue
        fields = set()
        for a in makes:
            t = a.targets[0] if isinstance(a, ast.Assign) and len(a.targets) == 1 else (a.target if isinstance(a, ast.AnnAssign) else None)
            if isinstance(t, ast.Attribute) and isinstance(t.value, ast.Name) and t.value.id == 'self':
                fields.add(t.attr)
            else:
                fields = None
                break
        if not fields or len(fields) != 1:
            continue
        F = next(iter(fields))
        FT = f'self.{F}'
        sites, bad = [], False
        for blk in _blocks(tree):
            for i, st in enumerate(blk):
                loads = [x for x in ast.walk(st) if isinstance(x, ast.Subscript) and isinstance(x.ctx, ast.Load) and ast.unparse(x.value) == FT]
                if not loads:
                    continue
                if isinstance(st, (ast.If, ast.For, ast.While, ast.With, ast.Try, ast.FunctionDef, ast.ClassDef)):
                    own = [x for x in loads if any(x is y for part in ([st.test] if isinstance(st, (ast.If, ast.While)) else [st.iter] if isinstance(st, ast.For) else [])
                                                   for y in ast.walk(part))]
                    if own:
                        bad = True
                    continue
                if len(loads) == 1 and isinstance(st, ast.Assign) and st.value is loads[0] and isinstance(loads[0].slice, ast.Name) \
                        and len(st.targets) == 1 and isinstance(st.targets[0], ast.Name):
                    sites.append((blk, st))
                else:
                    bad = True
        if bad or not sites:
            continue

        class R(ast.NodeTransformer):
            def visit_Name(self, x):
                if x.id == S and isinstance(x.ctx, ast.Load):
                    return ast.copy_location(ast.Attribute(value=ast.Name(id='self', ctx=ast.Load()), attr=F, ctx=ast.Load()), x)
                return x
        for blk, st in sites:
            k = st.value.slice.id
            i = next(j for j, y in enumerate(blk) if y is st)
            val = R().visit(copy.deepcopy(E))
            tbl = ast.Attribute(value=ast.Name(id='self', ctx=ast.Load()), attr=F, ctx=ast.Load())
            guard = ast.If(test=ast.Compare(left=ast.Name(id=k, ctx=ast.Load()), ops=[ast.NotIn()], comparators=[tbl]),
                           body=[ast.Assign(targets=[ast.Subscript(value=copy.deepcopy(tbl), slice=ast.Name(id=k, ctx=ast.Load()), ctx=ast.Store())], value=val)],
                           orelse=[])
            blk.insert(i, ast.fix_missing_locations(ast.copy_location(guard, st)))
        for a in makes:
            a.value = ast.copy_location(ast.Dict(keys=[], values=[]), a.value)
        tree.body = [x for x in tree.body if x is not K]
        n += 1
    if n:
        ast.fix_missing_locations(tree)
    return n


def merge_twin_branch_calls(tree: ast.Module) -> int:
    """`if C: f(A) else: f(B)` - both arms the one statement, the same callee (a method of a plain name, e.g. `xs.append`), one
    positional argument each - is `f(A if C else B)`: the test is evaluated first either way, then exactly one of A / B, then the call."""
    n = 0
    for blk in list(_blocks(tree)):
        for i, st in enumerate(blk):
            if not (isinstance(st, ast.If) and len(st.body) == 1 and len(st.orelse) == 1 and all(isinstance(x, ast.Expr) and isinstance(x.value, ast.Call)
                                                                                                 for x in (st.body[0], st.orelse[0]))):
                continue
            a, b = st.body[0].value, st.orelse[0].value
            if not (isinstance(a.func, ast.Attribute) and isinstance(a.func.value, ast.Name) and ast.unparse(a.func) == ast.unparse(b.func)
                    and len(a.args) == 1 and len(b.args) == 1 and not a.keywords and not b.keywords
                    and not isinstance(a.args[0], ast.Starred) and not isinstance(b.args[0], ast.Starred)):
                continue
            if any(isinstance(x, ast.Name) and x.id == a.func.value.id for x in ast.walk(st.test)):
                continue                                   # the test reads the receiver: keep the statement as it is
            call = ast.Call(func=a.func, args=[ast.IfExp(test=st.test, body=a.args[0], orelse=b.args[0])], keywords=[])
            blk[i] = ast.fix_missing_locations(ast.copy_location(ast.Expr(value=call), st))
            n += 1
    return n


def inline_private_procedures(tree: ast.Module) -> int:
    """a private module-level procedure (`def _h(p, q): ...`, no value returned, at most five statements, no loops / nested
    functions, parameters read-only, locals none) called as a statement `_h(a, b)` with plain names / attribute chains / constants as
    arguments is its body at every call, the parameters replaced by the arguments (a bare `return` restructured into if / else).
    Every reference to the helper must be such a call; the definition is then dropped."""
    import copy
    n = 0
    for g in [x for x in list(tree.body) if isinstance(x, ast.FunctionDef) and x.name.startswith('_') and not x.name.startswith('__')]:
        if g.decorator_list or g.args.vararg or g.args.kwarg or g.args.kwonlyargs or g.args.defaults or g.args.posonlyargs:
            continue
        body0 = [x for x in g.body if not (isinstance(x, ast.Expr) and isinstance(x.value, ast.Constant))]
        if not body0 or len(body0) > 5:
            continue
        if any(isinstance(x, (ast.For, ast.While, ast.FunctionDef, ast.Lambda, ast.Yield, ast.YieldFrom, ast.Global, ast.Nonlocal, ast.Try, ast.With))
               and x is not g for x in ast.walk(g)):
            continue
        if any(isinstance(x, ast.Return) and x.value is not None for x in ast.walk(g)):
            continue
        params = [a.arg for a in g.args.args]
        if any(isinstance(x, ast.Name) and isinstance(x.ctx, (ast.Store, ast.Del)) for x in ast.walk(g)):
            continue                                           # binds a local or a parameter
        refs = [x for x in ast.walk(tree) if isinstance(x, ast.Name) and x.id == g.name]
        sites = []
        for blk in _blocks(tree):
            for st in blk:
                if isinstance(st, ast.Expr) and isinstance(st.value, ast.Call) and isinstance(st.value.func, ast.Name) and st.value.func.id == g.name:
                    sites.append((blk, st))
        def simple(e):
            while isinstance(e, ast.Attribute):
                e = e.value
            return isinstance(e, (ast.Name, ast.Constant))
        if not sites or len(sites) != len(refs) or any(c.value.keywords or len(c.value.args) != len(params) or not all(simple(a) for a in c.value.args)
                                                        for _b, c in sites):
            continue
        flat = _eliminate_returns([copy.deepcopy(x) for x in body0])
        if flat is None:
            continue
        for blk, st in sites:
            sub = dict(zip(params, st.value.args))

            class R(ast.NodeTransformer):
                def visit_Name(self, x):
                    if x.id in sub and isinstance(x.ctx, ast.Load):
                        return ast.copy_location(copy.deepcopy(sub[x.id]), x)
                    return x
            new = [R().visit(copy.deepcopy(x)) for x in flat]
            for x in new:
                for y in ast.walk(x):
                    if hasattr(y, 'lineno'):
                        y.lineno = y.end_lineno = st.lineno
                ast.fix_missing_locations(x)
            i = next(j for j, y in enumerate(blk) if y is st)
            blk[i:i + 1] = new
            n += 1
        tree.body = [x for x in tree.body if x is not g]
    return n


def unroll_callable_tuples(tree: ast.Module) -> int:
    """`for f in (a.m1, a.m2, a.m3): f(args)` - the iterable a display (or a local bound once to one, just before the loop) of names
    / attribute chains, the body the single statement calling the loop variable - is `a.m1(args); a.m2(args); a.m3(args)`."""
    import copy
    n = 0
    for fn in [x for x in ast.walk(tree) if isinstance(x, ast.FunctionDef)]:
        for blk in list(_blocks(fn)):
            i = 0
            while i < len(blk):
                st = blk[i]
                i += 1
                if not (isinstance(st, ast.For) and isinstance(st.target, ast.Name) and not st.orelse and len(st.body) == 1
                        and isinstance(st.body[0], ast.Expr) and isinstance(st.body[0].value, ast.Call) and isinstance(st.body[0].value.func, ast.Name)
                        and st.body[0].value.func.id == st.target.id):
                    continue
                v = st.target.id
                call = st.body[0].value
                if any(isinstance(x, ast.Name) and x.id == v for a in list(call.args) + [k.value for k in call.keywords] for x in ast.walk(a)):
                    continue
                disp, drop = st.iter, None
                if isinstance(disp, ast.Name) and i >= 2 and isinstance(blk[i - 2], ast.Assign) and len(blk[i - 2].targets) == 1 \
                        and isinstance(blk[i - 2].targets[0], ast.Name) and blk[i - 2].targets[0].id == disp.id \
                        and sum(1 for x in ast.walk(fn) if isinstance(x, ast.Name) and x.id == disp.id) == 2:
                    drop, disp = blk[i - 2], blk[i - 2].value

                def simple(e):
                    while isinstance(e, ast.Attribute):
                        e = e.value
                    return isinstance(e, ast.Name)
                if not (isinstance(disp, (ast.Tuple, ast.List)) and 1 <= len(disp.elts) <= 6 and all(simple(e) for e in disp.elts)):
                    continue
                if sum(1 for x in ast.walk(fn) if isinstance(x, ast.Name) and x.id == v) != 2:
                    continue                                       # the loop variable is read after the loop
                new = []
                for e in disp.elts:
                    c2 = copy.deepcopy(call)
                    c2.func = copy.deepcopy(e)
                    new.append(ast.fix_missing_locations(ast.copy_location(ast.Expr(value=c2), st)))
                lo = i - 2 if drop is not None else i - 1
                blk[lo:i] = new
                i = lo + len(new)
                n += 1
    return n


def restore_static_aliases(tree: ast.Module) -> int:
    """`class C: name = staticmethod(_f)` with `_f` a private module-level function referenced only there is
    `class C: @staticmethod def name(..): <body of _f>` - the function moved out of the class body and back."""
    n = 0
    for C in [c for c in ast.walk(tree) if isinstance(c, ast.ClassDef)]:
        for i, st in enumerate(list(C.body)):
            if not (isinstance(st, ast.Assign) and len(st.targets) == 1 and isinstance(st.targets[0], ast.Name) and isinstance(st.value, ast.Call)
                    and isinstance(st.value.func, ast.Name) and st.value.func.id in ('staticmethod',) and len(st.value.args) == 1
                    and isinstance(st.value.args[0], ast.Name)):
                continue
            fname = st.value.args[0].id
            g = next((x for x in tree.body if isinstance(x, ast.FunctionDef) and x.name == fname), None)
            if g is None or not fname.startswith('_') or g.decorator_list \
                    or sum(1 for x in ast.walk(tree) if isinstance(x, ast.Name) and x.id == fname) != 1:
                continue
            g.name = st.targets[0].id
            g.decorator_list = [ast.Name(id='staticmethod', ctx=ast.Load())]
            tree.body = [x for x in tree.body if x is not g]
            C.body[C.body.index(st)] = g
            n += 1
    if n:
        ast.fix_missing_locations(tree)
    return n


def single_return_closure_to_lambda(tree: ast.Module) -> int:
    """a local `def f(a, b): return E` (no decorator, defaults, star parameters; not recursive) whose only reference is ONE use as a
    value (passed on, not called) is `lambda a, b: E` at that use"""
    import copy
    n = 0
    for fn in [x for x in ast.walk(tree) if isinstance(x, ast.FunctionDef)]:
        for g in [x for x in fn.body if isinstance(x, ast.FunctionDef)]:
            body = [x for x in g.body if not (isinstance(x, ast.Expr) and isinstance(x.value, ast.Constant))]
            if len(body) != 1 or not isinstance(body[0], ast.Return) or body[0].value is None or g.decorator_list \
                    or g.args.vararg or g.args.kwarg or g.args.kwonlyargs or g.args.defaults or g.args.posonlyargs:
                continue
            refs = [x for x in ast.walk(fn) if isinstance(x, ast.Name) and x.id == g.name]
            if len(refs) != 1 or any(refs[0] is y for y in ast.walk(g)):
                continue
            parents = {c: p for p in ast.walk(fn) for c in ast.iter_child_nodes(p)}
            par = parents.get(refs[0])
            if isinstance(par, ast.Call) and par.func is refs[0]:
                continue                                           # called, not passed on
            if any(isinstance(x, (ast.Yield, ast.YieldFrom, ast.Await, ast.NamedExpr)) for x in ast.walk(body[0].value)):
                continue
            lam = ast.Lambda(args=ast.arguments(posonlyargs=[], args=[ast.arg(arg=a.arg) for a in g.args.args], vararg=None, kwonlyargs=[],
                                                kw_defaults=[], kwarg=None, defaults=[]), body=body[0].value)

            class R(ast.NodeTransformer):
                def visit_Name(self, x):
                    return ast.copy_location(lam, x) if x is refs[0] else x
            fn.body = [R().visit(b) if b is not g else b for b in fn.body]
            fn.body = [b for b in fn.body if b is not g]
            ast.fix_missing_locations(fn)
            n += 1
    return n
