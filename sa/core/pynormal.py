"""Syntax normalisation applied to every module before any rule looks at it: *single-use temporaries are folded back*.

    t = E                      (t assigned once in the function, read once, in the very next statement of the same block,
    S[t]           ==>  S[E]    outside any nested scope, and nothing with a possible side effect is evaluated in S before t)

Whether a sub-expression is given a name before it is used is a matter of style; the rules that read syntax (which local feeds
which call, what is returned, what is appended) should not depend on it.  The fold moves the evaluation of E from the end of one
statement to a point in the next statement before which only names, attributes, constants and the callee expression are
evaluated, so the order of effects is unchanged.  Value-level rules (PyEval) see the same values either way."""
from __future__ import annotations

import ast
import copy

_IMPURE = (ast.Call, ast.Await, ast.Yield, ast.YieldFrom, ast.NamedExpr, ast.ListComp, ast.SetComp, ast.DictComp, ast.GeneratorExp)


def _find_use(stmt: ast.stmt, name: str):
    """-> 'ok' if `name` is read exactly once in stmt, not in a nested scope, and nothing impure is evaluated before that read;
    'no' otherwise"""
    state = {'impure': False, 'found': 0, 'bad': False}

    def expr(e):
        if e is None or state['bad']:
            return
        if isinstance(e, ast.Name):
            if e.id == name:
                if not isinstance(e.ctx, ast.Load):
                    state['bad'] = True
                    return
                state['found'] += 1
                if state['impure']:
                    state['bad'] = True
            return
        if isinstance(e, (ast.Lambda, ast.ListComp, ast.SetComp, ast.DictComp, ast.GeneratorExp)):
            if any(isinstance(x, ast.Name) and x.id == name for x in ast.walk(e)):
                state['bad'] = True          # used inside a nested scope / evaluated zero or many times
            state['impure'] = True
            return
        if isinstance(e, ast.BoolOp):
            expr(e.values[0])
            for v in e.values[1:]:
                if any(isinstance(x, ast.Name) and x.id == name for x in ast.walk(v)):
                    state['bad'] = True      # conditionally evaluated
                    return
            state['impure'] = state['impure'] or any(isinstance(x, _IMPURE) for v in e.values[1:] for x in ast.walk(v))
            return
        if isinstance(e, ast.IfExp):
            expr(e.test)
            for v in (e.body, e.orelse):
                if any(isinstance(x, ast.Name) and x.id == name for x in ast.walk(v)):
                    state['bad'] = True
                    return
            state['impure'] = True
            return
        if isinstance(e, ast.Call):
            expr(e.func)
            for a in e.args:
                expr(a.value if isinstance(a, ast.Starred) else a)
            for k in e.keywords:
                expr(k.value)
            state['impure'] = True
            return
        if isinstance(e, ast.Dict):
            for k, v in zip(e.keys, e.values):
                expr(k)
                expr(v)
            return
        if isinstance(e, (ast.Await, ast.Yield, ast.YieldFrom, ast.NamedExpr)):
            if any(isinstance(x, ast.Name) and x.id == name for x in ast.walk(e)):
                state['bad'] = True
            state['impure'] = True
            return
        for ch in ast.iter_child_nodes(e):
            if isinstance(ch, ast.expr):
                expr(ch)
            elif isinstance(ch, (ast.keyword,)):
                expr(ch.value)
            elif isinstance(ch, ast.slice if hasattr(ast, 'slice') else ()):
                pass

    if isinstance(stmt, ast.Expr):
        expr(stmt.value)
    elif isinstance(stmt, ast.Return):
        expr(stmt.value)
    elif isinstance(stmt, ast.Assign) and all(isinstance(t, ast.Name) for t in stmt.targets):
        expr(stmt.value)
    elif isinstance(stmt, ast.AnnAssign) and isinstance(stmt.target, ast.Name) and stmt.value is not None:
        expr(stmt.value)
    elif isinstance(stmt, ast.AugAssign) and isinstance(stmt.target, ast.Name):
        expr(stmt.value)
    elif isinstance(stmt, (ast.If, ast.While)):
        # only the test is evaluated next; a use in the body is conditional
        expr(stmt.test)
        if any(isinstance(x, ast.Name) and x.id == name for b in (stmt.body, stmt.orelse) for s in b for x in ast.walk(s)):
            state['bad'] = True
    elif isinstance(stmt, (ast.For, ast.AsyncFor)):
        # the iterable is evaluated once, before the loop
        expr(stmt.iter)
        if any(isinstance(x, ast.Name) and x.id == name for part in ([stmt.target], stmt.body, stmt.orelse) for s in part for x in ast.walk(s)):
            state['bad'] = True
    elif isinstance(stmt, ast.Assert):
        state['bad'] = True                  # asserts vanish under -O: never fold into them
    else:
        state['bad'] = True
    return 'ok' if (state['found'] == 1 and not state['bad']) else 'no'


class _Subst(ast.NodeTransformer):
    def __init__(self, name, value):
        self.name, self.value = name, value

    def visit_Name(self, n):
        if n.id == self.name and isinstance(n.ctx, ast.Load):
            return ast.copy_location(copy.deepcopy(self.value), n)
        return n


def _counts(fn):
    stores: dict[str, int] = {}
    loads: dict[str, int] = {}
    for n in ast.walk(fn):
        if isinstance(n, ast.Name):
            d = stores if isinstance(n.ctx, (ast.Store, ast.Del)) else loads
            d[n.id] = d.get(n.id, 0) + 1
        elif isinstance(n, ast.arg):
            stores[n.arg] = stores.get(n.arg, 0) + 1
        elif isinstance(n, ast.ExceptHandler) and n.name:
            stores[n.name] = stores.get(n.name, 0) + 1
        elif isinstance(n, (ast.MatchAs, ast.MatchStar)) and n.name:
            stores[n.name] = stores.get(n.name, 0) + 1
        elif isinstance(n, (ast.Global, ast.Nonlocal)):
            for x in n.names:
                stores[x] = stores.get(x, 0) + 2
    return stores, loads


def _fold_block(stmts, stores, loads) -> tuple[list, int]:
    out, i, n = [], 0, 0
    while i < len(stmts):
        st = stmts[i]
        if i + 1 < len(stmts) and isinstance(st, ast.Assign) and len(st.targets) == 1 and isinstance(st.targets[0], ast.Name):
            t = st.targets[0].id
            if stores.get(t, 0) == 1 and loads.get(t, 0) == 1 and _find_use(stmts[i + 1], t) == 'ok':
                stmts[i + 1] = ast.fix_missing_locations(_Subst(t, st.value).visit(stmts[i + 1]))
                n += 1
                i += 1
                continue
        out.append(st)
        i += 1
    return out, n


def fold_temporaries(tree: ast.Module) -> int:
    """fold single-use temporaries in every function of the module (in place); -> number of folds"""
    total = 0
    for fn in [x for x in ast.walk(tree) if isinstance(x, (ast.FunctionDef, ast.AsyncFunctionDef))]:
        for _round in range(500):
            stores, loads = _counts(fn)
            changed = 0
            for node in ast.walk(fn):
                if node is not fn and isinstance(node, (ast.FunctionDef, ast.AsyncFunctionDef, ast.ClassDef)):
                    continue
                for fld in ('body', 'orelse', 'finalbody'):
                    v = getattr(node, fld, None)
                    if isinstance(v, list) and v and isinstance(v[0], ast.stmt):
                        new, k = _fold_block(v, stores, loads)
                        if k:
                            setattr(node, fld, new)
                            changed += k
                            break
                if changed:
                    break                      # recount after every fold: the counts of the folded expression's names moved
            total += changed
            if not changed:
                break
    return total
