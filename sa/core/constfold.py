"""Constant folding of literal-only expressions (tables written as a comprehension over an alphabet, dict(zip(..)), ranges ...).

Nothing of the repository is imported or called: the folder interprets a closed expression built from literals, comprehensions over
folded iterables and a fixed list of pure builtins.  Anything else raises NotConstant."""
from __future__ import annotations

import ast
import string


class NotConstant(Exception):
    pass


_PURE = {'enumerate': enumerate, 'zip': zip, 'range': range, 'dict': dict, 'list': list, 'tuple': tuple, 'reversed': reversed,
         'ord': ord, 'chr': chr, 'len': len, 'sorted': sorted, 'str': str, 'int': int, 'frozenset': frozenset, 'set': set,
         'pow': lambda a, b: _small_pow(a, b), 'sum': sum, 'min': min, 'max': max, 'abs': abs}


def _small_pow(a, b):
    if not (isinstance(a, int) and isinstance(b, int) and 0 <= b <= 64 and abs(a) <= 1024):
        raise ValueError('pow outside the folded range')
    return a ** b


_STRING_CONSTS = {'ascii_uppercase': string.ascii_uppercase, 'ascii_lowercase': string.ascii_lowercase, 'digits': string.digits,
                  'ascii_letters': string.ascii_letters}
MAX_ITEMS = 4096


def fold(e: ast.AST, env: dict | None = None, consts: dict | None = None):
    """value of a closed expression; `consts` maps module-level names to already folded values"""
    env = env or {}
    consts = consts or {}

    def go(e, env):
        if isinstance(e, ast.Constant):
            return e.value
        if isinstance(e, ast.Name):
            if e.id in env:
                return env[e.id]
            if e.id in consts:
                return consts[e.id]
            raise NotConstant(e.id)
        if isinstance(e, ast.Attribute) and isinstance(e.value, ast.Name) and e.value.id == 'string' and e.attr in _STRING_CONSTS:
            return _STRING_CONSTS[e.attr]
        if isinstance(e, (ast.Tuple, ast.List, ast.Set)):
            vals = [go(x, env) for x in e.elts]
            return tuple(vals) if isinstance(e, ast.Tuple) else (list(vals) if isinstance(e, ast.List) else set(vals))
        if isinstance(e, ast.Dict):
            out = {}
            for k, v in zip(e.keys, e.values):
                if k is None:
                    out.update(go(v, env))
                else:
                    out[go(k, env)] = go(v, env)
            return out
        if isinstance(e, ast.BinOp) and isinstance(e.op, (ast.Add, ast.Sub, ast.Mult, ast.FloorDiv, ast.Mod, ast.Pow, ast.BitOr)):
            a, b = go(e.left, env), go(e.right, env)
            if isinstance(e.op, ast.Pow) and not (isinstance(a, int) and isinstance(b, int) and 0 <= b <= 64):
                raise NotConstant('pow')
            if isinstance(e.op, ast.Mult) and not (isinstance(a, int) and isinstance(b, int)):
                raise NotConstant('sequence repetition')
            try:
                return {ast.Add: lambda: a + b, ast.Sub: lambda: a - b, ast.Mult: lambda: a * b, ast.FloorDiv: lambda: a // b,
                        ast.Mod: lambda: a % b, ast.Pow: lambda: a ** b, ast.BitOr: lambda: a | b}[type(e.op)]()
            except Exception as ex:  # noqa: BLE001
                raise NotConstant(str(ex))
        if isinstance(e, ast.UnaryOp) and isinstance(e.op, ast.USub):
            return -go(e.operand, env)
        if isinstance(e, ast.Subscript):
            base = go(e.value, env)
            if isinstance(e.slice, ast.Slice):
                lo, hi, st = (go(x, env) if x is not None else None for x in (e.slice.lower, e.slice.upper, e.slice.step))
                return base[lo:hi:st]
            try:
                return base[go(e.slice, env)]
            except Exception as ex:  # noqa: BLE001
                raise NotConstant(str(ex))
        if isinstance(e, ast.Call) and isinstance(e.func, ast.Name) and e.func.id in _PURE:
            args = [go(a, env) for a in e.args]
            kw = {k.arg: go(k.value, env) for k in e.keywords if k.arg}
            if e.func.id == 'range' and args and max(abs(a) for a in args) > MAX_ITEMS:
                raise NotConstant('range too large')
            try:
                v = _PURE[e.func.id](*args, **kw)
            except Exception as ex:  # noqa: BLE001
                raise NotConstant(str(ex))
            if e.func.id in ('enumerate', 'zip', 'range', 'reversed'):
                v = list(v)
            return v
        if isinstance(e, (ast.ListComp, ast.SetComp, ast.GeneratorExp, ast.DictComp)):
            out = []

            def gen(i, env):
                if i == len(e.generators):
                    if isinstance(e, ast.DictComp):
                        out.append((go(e.key, env), go(e.value, env)))
                    else:
                        out.append(go(e.elt, env))
                    if len(out) > MAX_ITEMS:
                        raise NotConstant('too many items')
                    return
                g = e.generators[i]
                if g.is_async:
                    raise NotConstant('async')
                for v in go(g.iter, env):
                    e2 = dict(env)
                    bind(g.target, v, e2)
                    if all(go(c, e2) for c in g.ifs):
                        gen(i + 1, e2)
            gen(0, env)
            if isinstance(e, ast.DictComp):
                return dict(out)
            return set(out) if isinstance(e, ast.SetComp) else list(out)
        if isinstance(e, ast.Compare) and len(e.ops) == 1:
            a, b = go(e.left, env), go(e.comparators[0], env)
            op = e.ops[0]
            try:
                return {ast.Eq: lambda: a == b, ast.NotEq: lambda: a != b, ast.Lt: lambda: a < b, ast.LtE: lambda: a <= b,
                        ast.Gt: lambda: a > b, ast.GtE: lambda: a >= b, ast.In: lambda: a in b, ast.NotIn: lambda: a not in b}[type(op)]()
            except Exception as ex:  # noqa: BLE001
                raise NotConstant(str(ex))
        if isinstance(e, ast.JoinedStr) and all(isinstance(v, ast.Constant) for v in e.values):
            return ''.join(str(v.value) for v in e.values)
        raise NotConstant(type(e).__name__)

    def bind(t, v, env):
        if isinstance(t, ast.Name):
            env[t.id] = v
        elif isinstance(t, (ast.Tuple, ast.List)):
            v = list(v)
            if len(v) != len(t.elts):
                raise NotConstant('unpacking')
            for a, b in zip(t.elts, v):
                bind(a, b, env)
        else:
            raise NotConstant('target')

    return go(e, env)


def dict_pairs(e: ast.AST, consts: dict | None = None):
    """(key, value) pairs of a dict-valued expression in source order, keeping duplicates of a literal; None if not a constant dict"""
    if isinstance(e, ast.Dict) and all(k is not None for k in e.keys):
        try:
            return [(fold(k, consts=consts), fold(v, consts=consts)) for k, v in zip(e.keys, e.values)]
        except NotConstant:
            return None
    if isinstance(e, ast.DictComp):
        # duplicates matter (a key written twice silently drops an entry): fold the comprehension as a list of pairs
        as_list = ast.ListComp(elt=ast.Tuple(elts=[e.key, e.value], ctx=ast.Load()), generators=e.generators)
        try:
            return [tuple(x) for x in fold(as_list, consts=consts)]
        except NotConstant:
            return None
    if isinstance(e, ast.Call) and isinstance(e.func, ast.Name) and e.func.id == 'dict' and len(e.args) == 1 and not e.keywords:
        try:
            return [tuple(x) for x in fold(e.args[0], consts=consts)]
        except (NotConstant, TypeError):
            return None
    return None
