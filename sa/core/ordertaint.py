"""Engine F: iteration-order analysis.

Finds every construct that iterates a value whose iteration order is not a function of the program input (sets and
frozensets of strings / patterns / objects hashing by string or identity; ints are exempt) and classifies its consumer
as order-insensitive or not.  Set-typedness comes from annotations (parameters, locals, attributes, return types of
resolved callees), constructors and set operators.
"""
from __future__ import annotations

import ast
import re
from dataclasses import dataclass

from .pyfacts import PyRepo, ClassInfo

SET_HEADS = ('set', 'frozenset', 'Set', 'FrozenSet', 'AbstractSet', 'MutableSet')
SET_OPS = {'union', 'intersection', 'difference', 'symmetric_difference', 'copy'}
ORDER_FREE_CONSUMERS = {'sorted', 'min', 'max', 'sum', 'len', 'any', 'all', 'set', 'frozenset'}
ORDER_SENSITIVE_CONSUMERS = {'list', 'tuple', 'enumerate', 'iter', 'next', 'zip', 'map', 'reversed', 'filter', 'dict'}
DETERMINISTIC_ELEMS = {'int', 'bool'}


def _keyed_sort(call: ast.Call) -> bool:
    """sorted / min / max with a key: elements that tie on the key keep their input order (first wins), i.e. set order"""
    if not (isinstance(call.func, ast.Name) and call.func.id in ('sorted', 'min', 'max') and any(k.arg == 'key' for k in call.keywords)):
        return False
    # a key that contains the element itself as a component (`key=lambda v: (rank(v), v)`) or is the identity orders distinct
    # elements totally: nothing ties, the input order does not show
    key = next(k.value for k in call.keywords if k.arg == 'key')
    if isinstance(key, ast.Lambda) and len(key.args.args) == 1 and not key.args.vararg and not key.args.kwarg:
        v = key.args.args[0].arg
        body = key.body
        comps = body.elts if isinstance(body, ast.Tuple) else [body]
        if any(isinstance(c, ast.Name) and c.id == v for c in comps):
            return False
    return True


@dataclass
class Site:
    module: str
    function: str
    expr: str            # source text of the iterated expression
    key: str             # stable name of what is iterated (callee / attribute / variable)
    elem: str
    consumer: str        # for | comprehension:<kind> | call:<name> | star | pop | join
    safe: bool
    why: str
    node: ast.AST
    stable: str = ''     # rename-stable identification of what is iterated (localkeys.stable_key), used by the triage tables


def ann_set_elem(ann: str | None):
    """annotation text -> element type text if it denotes a set, else None"""
    if not ann:
        return None
    a = ann.strip().strip('\'"')
    for part in re.split(r'\s*\|\s*(?![^\[]*\])', a):
        m = re.match(r'(?:typing\.|collections\.abc\.)?(\w+)(?:\[(.*)\])?$', part.strip())
        if m and m.group(1) in SET_HEADS:
            return (m.group(2) or '?').strip()
    return None


class OrderAnalysis:
    def __init__(self, py: PyRepo):
        self.py = py
        # method / function name -> set element type when every definition of that name returns a set
        self.ret_sets: dict[str, str] = {}
        by_name: dict[str, list] = {}
        for mname, qn, fn, ci in py.all_functions():
            by_name.setdefault(fn.name, []).append(ast.unparse(fn.returns) if fn.returns else None)
        for name, anns in by_name.items():
            elems = [ann_set_elem(a) for a in anns]
            if elems and all(e is not None for e in elems):
                self.ret_sets[name] = elems[0]
        # properties returning sets are read as attributes
        self.prop_sets: dict[str, str] = {}
        for mname, qn, fn, ci in py.all_functions():
            if any(ast.unparse(d) == 'property' for d in fn.decorator_list) and fn.name in self.ret_sets:
                self.prop_sets[fn.name] = self.ret_sets[fn.name]
        # attribute annotations: self.x: set[...] anywhere in a class
        self.attr_sets: dict[tuple[str, str], str] = {}
        for mname, mi in py.modules.items():
            for c in mi.classes.values():
                for n, t in c.fields:
                    e = ann_set_elem(t)
                    if e is not None:
                        self.attr_sets[(c.name, n)] = e
                for f in c.methods.values():
                    for node in ast.walk(f):
                        if isinstance(node, ast.AnnAssign) and isinstance(node.target, ast.Attribute) \
                                and isinstance(node.target.value, ast.Name) and node.target.value.id == 'self':
                            e = ann_set_elem(ast.unparse(node.annotation))
                            if e is not None:
                                self.attr_sets[(c.name, node.target.attr)] = e
                        if isinstance(node, ast.Assign) and isinstance(node.targets[0], ast.Attribute) \
                                and isinstance(node.targets[0].value, ast.Name) and node.targets[0].value.id == 'self' \
                                and self._literal_set(node.value):
                            self.attr_sets.setdefault((c.name, node.targets[0].attr), '?')

    @staticmethod
    def _literal_set(e) -> bool:
        return isinstance(e, (ast.Set, ast.SetComp)) or (isinstance(e, ast.Call) and isinstance(e.func, ast.Name)
                                                          and e.func.id in ('set', 'frozenset'))

    # ------------------------------------------------------------------
    def local_env(self, fn: ast.FunctionDef, ci=None) -> dict[str, str]:
        env: dict[str, str] = {}
        for a in fn.args.posonlyargs + fn.args.args + fn.args.kwonlyargs:
            e = ann_set_elem(ast.unparse(a.annotation)) if a.annotation else None
            if e is not None:
                env[a.arg] = e
        changed = True
        rounds = 0
        while changed and rounds < 4:
            changed = False
            rounds += 1
            for node in ast.walk(fn):
                tgt = val = ann = None
                if isinstance(node, ast.AnnAssign) and isinstance(node.target, ast.Name):
                    tgt, val, ann = node.target.id, node.value, ast.unparse(node.annotation)
                elif isinstance(node, ast.Assign) and len(node.targets) == 1 and isinstance(node.targets[0], ast.Name):
                    tgt, val = node.targets[0].id, node.value
                elif isinstance(node, ast.NamedExpr):
                    tgt, val = node.target.id, node.value
                if tgt is None:
                    continue
                e = ann_set_elem(ann) if ann else None
                if e is None and val is not None:
                    e = self.set_elem(val, env, ci)
                if e is not None and env.get(tgt) != e:
                    if tgt not in env:
                        env[tgt] = e
                        changed = True
        return env

    def set_elem(self, e, env: dict, ci: ClassInfo | None):
        """element type text if `e` is set-typed, else None"""
        if isinstance(e, ast.Set):
            return self._elem_of_exprs(e.elts)
        if isinstance(e, ast.SetComp):
            return '?'
        if isinstance(e, ast.Name):
            return env.get(e.id)
        if isinstance(e, ast.Attribute):
            if isinstance(e.value, ast.Name) and e.value.id == 'self' and ci is not None:
                for c in self.py.mro(ci):
                    if (c.name, e.attr) in self.attr_sets:
                        return self.attr_sets[(c.name, e.attr)]
            if e.attr in self.prop_sets:
                return self.prop_sets[e.attr]
            return None
        if isinstance(e, ast.Call):
            f = e.func
            if isinstance(f, ast.Name):
                if f.id in ('set', 'frozenset'):
                    if e.args:
                        inner = self.set_elem(e.args[0], env, ci)
                        return inner or '?'
                    return '?'
                if f.id in self.ret_sets:
                    return self.ret_sets[f.id]
            if isinstance(f, ast.Attribute):
                if f.attr in SET_OPS:
                    base = self.set_elem(f.value, env, ci)
                    if base is not None:
                        return base
                if f.attr in self.ret_sets:
                    return self.ret_sets[f.attr]
            return None
        if isinstance(e, ast.BinOp) and isinstance(e.op, (ast.BitOr, ast.BitAnd, ast.Sub, ast.BitXor)):
            l, r = self.set_elem(e.left, env, ci), self.set_elem(e.right, env, ci)
            return l or r
        if isinstance(e, ast.IfExp):
            return self.set_elem(e.body, env, ci) or self.set_elem(e.orelse, env, ci)
        return None

    @staticmethod
    def _elem_of_exprs(elts):
        if elts and all(isinstance(x, ast.Constant) and isinstance(x.value, int) for x in elts):
            return 'int'
        return '?'

    # ------------------------------------------------------------------
    def sites(self) -> list[Site]:
        out: list[Site] = []
        for mname, mi in self.py.modules.items():
            fns = [(f.name, f, None) for f in mi.functions.values()]
            for c in mi.classes.values():
                fns += [(f'{c.name}.{f.name}', f, c) for f in c.methods.values()]
            for qn, fn, ci in fns:
                env = self.local_env(fn, ci)
                parents = {}
                for p in ast.walk(fn):
                    for ch in ast.iter_child_nodes(p):
                        parents[ch] = p
                for node in ast.walk(fn):
                    if isinstance(node, ast.For):
                        el = self.set_elem(node.iter, env, ci)
                        if el is not None:
                            safe, why = self.loop_body_order_free(node)
                            extra = set(getattr(self, '_bound_in_body', set())) if safe else set()
                            if not safe:
                                safe, why = self.own_entry_effects(node, fn, ci, mname)
                            if safe and self._loop_var_escapes(fn, node, parents, extra):
                                # commuting iterations do not help if the LAST element is used afterwards
                                safe, why = False, ''
                            out.append(self._site(fn, mname, qn, node.iter, el, 'for', safe, why, node))
                    elif isinstance(node, ast.comprehension):
                        el = self.set_elem(node.iter, env, ci)
                        if el is not None:
                            comp = parents.get(node)
                            kind = type(comp).__name__
                            safe, why = self.comp_consumer(comp, parents)
                            out.append(self._site(fn, mname, qn, node.iter, el, f'comprehension:{kind}', safe, why, comp))
                    elif isinstance(node, ast.Call):
                        f = node.func
                        name = f.id if isinstance(f, ast.Name) else (f.attr if isinstance(f, ast.Attribute) else None)
                        if isinstance(f, ast.Name) and (name in ORDER_SENSITIVE_CONSUMERS or _keyed_sort(node)):
                            for a in node.args:
                                el = self.set_elem(a, env, ci)
                                if el is not None:
                                    safe, why = self.call_consumer(node, parents)
                                    out.append(self._site(fn, mname, qn, a, el, f'call:{name}', safe, why, node))
                        if isinstance(f, ast.Attribute) and name == 'join' and node.args:
                            el = self.set_elem(node.args[0], env, ci)
                            if el is not None:
                                out.append(self._site(fn, mname, qn, node.args[0], el, 'join', False, '', node))
                        if isinstance(f, ast.Attribute) and name in ('extend', 'extendleft', 'writelines') and node.args:
                            # a sequence extended by a set keeps the set's iteration order
                            el = self.set_elem(node.args[0], env, ci)
                            if el is not None and self.set_elem(f.value, env, ci) is None:
                                out.append(self._site(fn, mname, qn, node.args[0], el, f'call:{name}', False, '', node))
                        if isinstance(f, ast.Attribute) and name == 'pop' and not node.args:
                            el = self.set_elem(f.value, env, ci)
                            if el is not None:
                                out.append(self._site(fn, mname, qn, f.value, el, 'pop', False, '', node))
                    elif isinstance(node, ast.AugAssign) and isinstance(node.op, ast.Add):
                        el = self.set_elem(node.value, env, ci)
                        if el is not None and self.set_elem(node.target, env, ci) is None:
                            out.append(self._site(fn, mname, qn, node.value, el, 'augmented-add', False, '', node))
                    elif isinstance(node, ast.Starred) and isinstance(node.ctx, ast.Load):
                        el = self.set_elem(node.value, env, ci)
                        if el is not None:
                            par = parents.get(node)
                            safe = isinstance(par, ast.Set)
                            out.append(self._site(fn, mname, qn, node.value, el, 'star', safe, 'unpacked into a set display' if safe else '', node))
        return out

    @staticmethod
    def _loop_var_escapes(fn, loop: ast.For, parents, extra=()) -> bool:
        """a loop variable is read after the loop before being bound again: its value is then the last element iterated - of a set,
        whichever that was.  "After" follows the control flow through enclosing loops: the rest of the enclosing body, then the
        enclosing body from its start (next iteration), outwards."""
        names = {n.id for n in ast.walk(loop.target) if isinstance(n, ast.Name)} | set(extra)
        if not names:
            return False
        inside = {id(n) for n in ast.walk(loop)}

        def mentions(stmts):
            out = []
            for st in stmts:                     # in execution order of the statements; by position inside one statement
                here = []
                stack = [st]
                while stack:
                    n = stack.pop()
                    if isinstance(n, (ast.FunctionDef, ast.AsyncFunctionDef, ast.Lambda, ast.ClassDef)) or id(n) in inside:
                        continue
                    if isinstance(n, ast.Name) and n.id in names:
                        here.append(n)
                    stack.extend(ast.iter_child_nodes(n))
                out.extend(sorted(here, key=lambda n: (n.lineno, n.col_offset)))
            return out

        def first_is_load(ms, name):
            ms = [m for m in ms if m.id == name]
            if not ms:
                return None
            # `x = f(x)`: the right-hand side is evaluated first although the target comes first in the text
            m0 = ms[0]
            if isinstance(m0.ctx, ast.Store):
                same = [m for m in ms if m.lineno == m0.lineno and isinstance(m.ctx, ast.Load)]
                return bool(same)
            return True
        cur = loop
        pending = set(names)
        while cur in parents and pending:
            par = parents[cur]
            for fld in ('body', 'orelse', 'finalbody'):
                blk = getattr(par, fld, None)
                if isinstance(blk, list) and cur in blk:
                    after = blk[blk.index(cur) + 1:]
                    seq = list(after)
                    if isinstance(par, (ast.For, ast.While)) and fld == 'body':
                        seq = after + blk[:blk.index(cur)] + [par.test] if isinstance(par, ast.While) else after + blk[:blk.index(cur)]
                    ms = mentions(seq)
                    for nm in sorted(pending):
                        r = first_is_load(ms, nm)
                        if r is True:
                            return True
                        if r is False:
                            pending.discard(nm)
                    if isinstance(par, ast.For) and fld == 'body':
                        # re-binding by the enclosing loop's own target
                        for nm in list(pending):
                            if any(isinstance(n, ast.Name) and n.id == nm for n in ast.walk(par.target)):
                                pending.discard(nm)
            if isinstance(par, (ast.FunctionDef, ast.AsyncFunctionDef)):
                break
            cur = par
        return False

    def _module_of(self, node) -> str | None:
        parents = self._all_parents()
        cur = node
        while cur in parents:
            cur = parents[cur]
        for mname, mi in self.py.modules.items():
            if mi.tree is cur:
                return mname
        return None

    def _site(self, fn, mname, qn, expr, el, consumer, safe, why, node) -> Site:
        from .localkeys import stable_key
        key = self.key_of(expr)
        if el.split('[')[0].strip() in DETERMINISTIC_ELEMS or el in ('int',):
            safe, why = True, f'elements are {el}: their iteration order does not depend on the hash seed'
        from .localkeys import masked
        stable = stable_key(fn, expr) + ' @ ' + ' '.join(masked(fn, node).split())
        return Site(mname, qn, ast.unparse(expr), key, el, consumer, safe, why, node, stable)

    @staticmethod
    def key_of(e) -> str:
        if isinstance(e, ast.Call):
            f = e.func
            return f.attr if isinstance(f, ast.Attribute) else (f.id if isinstance(f, ast.Name) else 'call')
        if isinstance(e, ast.Attribute):
            return e.attr
        if isinstance(e, ast.Name):
            return e.id
        return type(e).__name__

    # consumers --------------------------------------------------------------
    def _all_parents(self):
        if getattr(self, '_parents_cache', None) is None:
            par = {}
            for mi in self.py.modules.values():
                for p in ast.walk(mi.tree):
                    for ch in ast.iter_child_nodes(p):
                        par[ch] = p
            self._parents_cache = par
        return self._parents_cache

    def _dataclass_fields(self, ci) -> list[str]:
        """constructor parameter order of a class whose __init__ is generated by @dataclass (its own or the nearest decorated
        ancestor's): fields of the decorated classes from the root down, a redeclared field keeps its place"""
        chain = self.py.mro(ci)
        owner = None
        for c in chain:
            if '__init__' in c.methods:
                return []
            if any(d.split('(')[0].split('.')[-1] == 'dataclass' for d in c.decorators):
                owner = c
                break
        if owner is None:
            return []
        out: list[str] = []
        for c in reversed(self.py.mro(owner)):
            if not any(d.split('(')[0].split('.')[-1] == 'dataclass' for d in c.decorators):
                continue
            for n, _t in c.fields:
                if n not in out:
                    out.append(n)
        return out

    def _field_reads_order_free(self, field: str, depth: int):
        """every read of `.field` anywhere in the package (by name: an over-approximation of the reads of that class) ends in an
        order-free consumer"""
        parents = self._all_parents()
        n = 0
        for mi in self.py.modules.values():
            for node in ast.walk(mi.tree):
                if isinstance(node, ast.Attribute) and node.attr == field and isinstance(node.ctx, ast.Load):
                    par = parents.get(node)
                    if isinstance(par, ast.Call) and par.func is node:
                        continue                      # a method of that name, not the field
                    n += 1
                    ok, _why = self._climb(node, parents, depth + 1)
                    if not ok:
                        return False, n
        return True, n

    def _climb(self, node, parents=None, depth=0):
        """follow the value of `node` through order-preserving wrappers (map / filter / list / generator ...), locals that only
        name it, the return of a helper to its call sites, and a constructor argument to the reads of that field, to what finally
        consumes it; -> (True, why) if no consumer depends on the order"""
        if depth > 4:
            return False, ''
        parents = self._all_parents() if node in self._all_parents() else (parents or {})
        cur = node
        for _ in range(8):
            par = parents.get(cur)
            if par is None:
                return False, ''
            # used for its truth value only (`if not xs:`, `while xs:`, `xs and ..`, `bool(xs)`, `x if xs else y`, assert): empty or not
            if (isinstance(par, ast.UnaryOp) and isinstance(par.op, ast.Not)) or (isinstance(par, (ast.If, ast.While, ast.IfExp, ast.Assert)) and par.test is cur) \
                    or (isinstance(par, ast.BoolOp) and cur in par.values[:-1]):
                return True, 'used for its truth value only (empty or not)'
            if isinstance(par, ast.comprehension):
                comp = parents.get(par)
                if isinstance(comp, ast.SetComp):
                    return True, 'feeds a set comprehension'
                if isinstance(comp, (ast.GeneratorExp, ast.ListComp)) and par.iter is cur:
                    cur = comp
                    continue
                return False, ''
            if isinstance(par, ast.Starred):
                cur = par
                continue
            if isinstance(par, (ast.Tuple, ast.List)) and isinstance(par.ctx, ast.Load):
                cur = par                              # an element of a sequence display: the display keeps the order
                continue
            if isinstance(par, ast.For) and par.iter is cur:
                ok, why = self.loop_body_order_free(par)
                return (True, 'iterated by a loop whose ' + why) if ok else (False, '')
            if isinstance(par, ast.Call):
                if isinstance(par.func, ast.Name):
                    if par.func.id in ORDER_FREE_CONSUMERS and not _keyed_sort(par):
                        return True, f'finally consumed by {par.func.id}()'
                    if par.func.id in ('map', 'filter', 'list', 'tuple', 'iter', 'reversed', 'zip', 'enumerate', 'chain'):
                        cur = par
                        continue
                    # argument of the constructor of a package class: the value lives on in that field
                    ci = self.py.find_class(par.func.id, self._module_of(par))
                    if ci is not None and cur in par.args and not any(isinstance(a, ast.Starred) for a in par.args):
                        flds = self._dataclass_fields(ci)
                        i = par.args.index(cur)
                        if i < len(flds):
                            ok, n = self._field_reads_order_free(flds[i], depth)
                            if ok and n:
                                return True, f'stored in the field `{flds[i]}` of {ci.name}, whose {n} reads in the package are all order-free (len / set / membership)'
                        return False, ''
                if isinstance(par.func, ast.Attribute) and par.func.attr in ('update', 'union', 'intersection', 'difference', 'issubset',
                                                                               'issuperset', 'isdisjoint', 'symmetric_difference'):
                    return True, f'finally consumed by set.{par.func.attr}()'
                return False, ''
            if isinstance(par, ast.Assign) and len(par.targets) == 1 and isinstance(par.targets[0], ast.Name) and par.value is cur:
                # a local that only names the value: every later use of it must end in an order-free consumer
                name = par.targets[0].id
                fn = par
                while fn is not None and not isinstance(fn, (ast.FunctionDef, ast.AsyncFunctionDef)):
                    fn = parents.get(fn)
                if fn is None:
                    return False, ''
                stores = [n for n in ast.walk(fn) if isinstance(n, ast.Name) and n.id == name and isinstance(n.ctx, ast.Store)]
                uses = [n for n in ast.walk(fn) if isinstance(n, ast.Name) and n.id == name and isinstance(n.ctx, ast.Load)]
                if len(stores) != 1 or not uses:
                    return False, ''
                whys = []
                for u in uses:
                    ok, why = self._climb(u, parents, depth + 1)
                    if not ok:
                        return False, ''
                    whys.append(why)
                return True, f'named `{name}` and then ' + whys[0]
            if isinstance(par, ast.Return) and par.value is cur:
                # the result of a helper: every call site of the helper must consume it order-free
                g = par
                while g is not None and not isinstance(g, (ast.FunctionDef, ast.AsyncFunctionDef)):
                    g = parents.get(g)
                if g is None or g.name.startswith('__'):
                    return False, ''
                n = 0
                for mi in self.py.modules.values():
                    for c in ast.walk(mi.tree):
                        if isinstance(c, ast.Call) and ((isinstance(c.func, ast.Name) and c.func.id == g.name)
                                                        or (isinstance(c.func, ast.Attribute) and c.func.attr == g.name)):
                            n += 1
                            ok, why = self._climb(c, parents, depth + 1)
                            if not ok:
                                return False, ''
                if n == 0:
                    return False, ''
                return True, f'returned by {g.name}, whose {n} call sites ' + why
            if isinstance(par, ast.AugAssign) and isinstance(par.op, (ast.BitOr, ast.BitAnd, ast.Sub)) and par.value is cur:
                return False, ''
            return False, ''
        return False, ''

    def comp_consumer(self, comp, parents):
        if isinstance(comp, ast.SetComp):
            return True, 'builds a set'
        ok, why = self._climb(comp, parents)
        if ok:
            return True, why
        par = parents.get(comp)
        if isinstance(par, ast.Call) and isinstance(par.func, ast.Name) and par.func.id in ORDER_FREE_CONSUMERS \
                and not _keyed_sort(par):
            return True, f'consumed by {par.func.id}()'
        if isinstance(par, ast.Call) and isinstance(par.func, ast.Attribute) and par.func.attr in ('update', 'union', 'intersection', 'difference', 'issubset', 'issuperset'):
            return True, f'consumed by set.{par.func.attr}()'
        return False, ''

    def call_consumer(self, call, parents):
        ok, why = self._climb(call, parents)
        if ok:
            return True, why
        par = parents.get(call)
        if isinstance(par, ast.Call) and isinstance(par.func, ast.Name) and par.func.id in ORDER_FREE_CONSUMERS \
                and not _keyed_sort(par):
            return True, f'result consumed by {par.func.id}()'
        return False, ''

    def loop_body_order_free(self, loop: ast.For):
        """every effect of the body is commutative and idempotent with respect to iteration order"""
        self._bound_in_body = set()
        for st in loop.body:
            if not self._stmt_order_free(st):
                return False, ''
        return True, 'loop body only performs order-independent effects (set insertion, membership, early boolean result)'

    # ------------------------------------------------------------------
    # effect rule: every iteration reads and writes only the table entry of its own element
    _PURE_CALLS = ('len', 'abs', 'int', 'min', 'max')

    def own_entry_effects(self, loop: ast.For, fn, ci, mname, _depth=0):
        """`for x in S: ...` where each iteration only (a) rebinds / updates storage rooted at `T[x]` for a loop-invariant table T,
        (b) adds to sets, (c) binds locals from pure expressions, (d) calls a method of the class whose own effects are confined to
        `T[<its parameter>]`: the iterations commute, the order of S cannot be observed.  Reads of the table at another key are
        refused; loop-invariant locals that were loaded from the table before the loop are accepted only under a recorded
        distinctness reason (spec/order_triage.DISTINCT_ENTRIES) - that they are not the entry of an element of S is a fact about
        the data, not about the shape of the loop."""
        from ..spec.order_triage import DISTINCT_ENTRIES
        if not isinstance(loop.target, ast.Name):
            return False, ''
        x = loop.target.id
        stored = {n.id for st in loop.body for n in ast.walk(st) if isinstance(n, ast.Name) and isinstance(n.ctx, (ast.Store, ast.Del))}
        if x in stored:
            return False, ''
        tables: set[str] = set()
        inner_vars: set[str] = set()

        def root_entry(t):
            """T text if the store target `t` is rooted at T[x] (T loop-invariant), else None"""
            cur = t
            while isinstance(cur, (ast.Attribute, ast.Subscript)):
                if isinstance(cur, ast.Subscript) and isinstance(cur.slice, ast.Name) and cur.slice.id == x:
                    base = cur.value
                    names = {n.id for n in ast.walk(base) if isinstance(n, ast.Name)}
                    if not (names & (stored | {x} | inner_vars)) and isinstance(base, (ast.Name, ast.Attribute)):
                        return ast.unparse(base)
                cur = cur.value
            return None

        def pure(e) -> bool:
            for n in ast.walk(e):
                if isinstance(n, ast.Call):
                    f = n.func
                    if isinstance(f, ast.Attribute) and f.attr == '_replace':
                        continue
                    if isinstance(f, ast.Name) and f.id in self._PURE_CALLS:
                        continue
                    return False
                if isinstance(n, (ast.Lambda, ast.ListComp, ast.SetComp, ast.DictComp, ast.GeneratorExp, ast.NamedExpr, ast.Await,
                                  ast.Yield, ast.YieldFrom, ast.Starred)):
                    return False
            return True

        def stmt_ok(st) -> bool:
            if self._stmt_order_free(st) and not isinstance(st, ast.If):
                return all(pure(a) for a in ast.iter_child_nodes(st.value)) if isinstance(st, ast.Expr) else True
            if isinstance(st, ast.Assign) and len(st.targets) == 1 and isinstance(st.targets[0], ast.Name):
                return pure(st.value)
            if isinstance(st, (ast.Assign, ast.AugAssign)):
                tgt = st.targets[0] if isinstance(st, ast.Assign) and len(st.targets) == 1 else getattr(st, 'target', None)
                if tgt is None:
                    return False
                t = root_entry(tgt)
                if t is None or not pure(st.value):
                    return False
                tables.add(t)
                return True
            if isinstance(st, ast.If):
                return pure(st.test) and all(stmt_ok(s) for s in st.body + st.orelse)
            if isinstance(st, ast.For) and isinstance(st.target, ast.Name) and not st.orelse and pure(st.iter):
                names = {n.id for n in ast.walk(st.iter) if isinstance(n, ast.Name)}
                if names & (stored - {st.target.id}) and not names <= {x} | (stored - {st.target.id}):
                    pass
                inner_vars.add(st.target.id)
                return all(stmt_ok(s) for s in st.body)
            if isinstance(st, ast.Expr) and isinstance(st.value, ast.Call):
                c = st.value
                f = c.func
                if isinstance(f, ast.Attribute) and isinstance(f.value, ast.Name) and f.value.id == 'self' and ci is not None \
                        and len(c.args) == 1 and not c.keywords and isinstance(c.args[0], ast.Name) and c.args[0].id == x and _depth < 2:
                    hit = self.py.find_method(ci, f.attr)
                    if hit is None:
                        return False
                    hfn = hit[1]
                    if len(hfn.args.args) != 2 or hfn.args.vararg or hfn.args.kwarg or hfn.decorator_list:
                        return False
                    # the helper body as the body of a one-element loop over its parameter
                    fake = ast.For(target=ast.Name(id=hfn.args.args[1].arg, ctx=ast.Store()), iter=ast.Name(id='_', ctx=ast.Load()),
                                   body=hfn.body, orelse=[])
                    ok, _w, ts = self._own_entry_raw(fake, hfn, hit[0], mname, _depth + 1)
                    if ok:
                        tables.update(ts)
                    return ok
            return False

        if not all(stmt_ok(st) for st in loop.body):
            return False, ''
        # reads of a table at a key that is not the element itself: another iteration may have rewritten that entry; and any other use
        # of the table as a whole (len(table), iteration, membership of another key) sees what earlier iterations did
        for st in loop.body:
            whole = own = 0
            for n in ast.walk(st):
                if isinstance(n, (ast.Name, ast.Attribute)) and ast.unparse(n) in tables:
                    whole += 1
                if isinstance(n, ast.Subscript) and ast.unparse(n.value) in tables:
                    if not (isinstance(n.slice, ast.Name) and n.slice.id == x):
                        return False, ''
                    own += 1
            if whole != own:
                return False, ''
        # loop-invariant locals loaded from the table before the loop: may be the entry of an element unless recorded distinct
        assumed = []
        if tables:
            read = {n.id for st in loop.body for n in ast.walk(st) if isinstance(n, ast.Name) and isinstance(n.ctx, ast.Load)}
            for v in sorted(read - stored - {x} - inner_vars):
                # every binding of the local in the function: a value (or iterated collection) that mentions the table may be an entry
                sources = []
                for n in ast.walk(fn):
                    if isinstance(n, (ast.Assign, ast.AnnAssign, ast.AugAssign, ast.NamedExpr)):
                        tg = n.targets if isinstance(n, ast.Assign) else [n.target]
                        if any(isinstance(y, ast.Name) and y.id == v and isinstance(y.ctx, ast.Store) for t in tg for y in ast.walk(t)) \
                                and n.value is not None:
                            sources.append(n.value)
                    elif isinstance(n, (ast.For, ast.comprehension)) and any(isinstance(y, ast.Name) and y.id == v for y in ast.walk(n.target)):
                        sources.append(n.iter)
                    elif isinstance(n, ast.withitem) and n.optional_vars is not None \
                            and any(isinstance(y, ast.Name) and y.id == v for y in ast.walk(n.optional_vars)):
                        sources.append(n.context_expr)
                if any(ast.unparse(y) in tables for src in sources for y in ast.walk(src) if isinstance(y, (ast.Name, ast.Attribute))):
                    assumed.append(v)
        self._last_tables = set(tables)
        if assumed:
            cname = ci.name if ci is not None else ''
            for t in sorted(tables):
                reason = DISTINCT_ENTRIES.get((mname, cname, t))
                if reason is None:
                    return False, ''
            return True, (f'every iteration only touches the entry {sorted(tables)}[{x}] of its own element; the entries loaded before the '
                          f'loop ({", ".join(assumed)}) are distinct from it: {reason}')
        return True, f'every iteration only touches the entry {sorted(tables)}[{x}] of its own element (and adds to sets)'

    def _own_entry_raw(self, loop, fn, ci, mname, depth):
        ok, why = self.own_entry_effects(loop, fn, ci, mname, depth)
        return ok, why, (getattr(self, '_last_tables', set()) if ok else set())

    def _stmt_order_free(self, st) -> bool:
        if isinstance(st, ast.Expr) and isinstance(st.value, ast.Call) and isinstance(st.value.func, ast.Attribute) \
                and st.value.func.attr in ('add', 'update', 'discard'):
            return True
        if isinstance(st, ast.AugAssign) and isinstance(st.op, (ast.BitOr, ast.BitAnd)):
            return True
        if isinstance(st, ast.AugAssign) and isinstance(st.op, ast.Add) and isinstance(st.value, ast.Constant) and isinstance(st.value.value, int):
            return True
        if isinstance(st, ast.If):
            return all(self._stmt_order_free(s) for s in st.body + st.orelse)
        if isinstance(st, ast.Return) and isinstance(st.value, ast.Constant) and isinstance(st.value.value, bool):
            return True
        if isinstance(st, (ast.Pass, ast.Continue, ast.Assert)):
            return True
        # a local bound from a call-free expression (a lookup, an attribute): no effect of its own; that its LAST value is not read
        # after the loop is checked with the loop variable (`_loop_var_escapes`)
        if isinstance(st, (ast.Assign, ast.AnnAssign)) and st.value is not None \
                and isinstance(st.targets[0] if isinstance(st, ast.Assign) else st.target, ast.Name) \
                and not any(isinstance(n, (ast.Call, ast.Await, ast.Yield, ast.YieldFrom, ast.NamedExpr, ast.Lambda)) for n in ast.walk(st.value)):
            getattr(self, '_bound_in_body', set()).add((st.targets[0] if isinstance(st, ast.Assign) else st.target).id)
            return True
        return False


# ----------------------------------------------------------------------------
# name-based reachability (over-approximation: a call `x.f()` reaches every function named f)

def reachable_functions(py: PyRepo, entries: list[tuple[str, str]]) -> set[tuple[str, str]]:
    by_name: dict[str, list[tuple[str, str]]] = {}
    body: dict[tuple[str, str], ast.FunctionDef] = {}
    for mname, qn, fn, ci in py.all_functions():
        by_name.setdefault(fn.name, []).append((mname, qn))
        body[(mname, qn)] = fn
        if ci is not None and fn.name == '__init__':
            by_name.setdefault(ci.name, []).append((mname, qn))
    # a function can only be reached if its module is (transitively) imported by an entry module
    mods: set[str] = set()
    mwork = sorted({m for m, _q in entries if m in py.modules})
    while mwork:
        m = mwork.pop()
        if m in mods:
            continue
        mods.add(m)
        for _local, (tgt, _orig) in py.modules[m].imports.items():
            if tgt in py.modules and tgt not in mods:
                mwork.append(tgt)
            # `from pkg import module`
            cand = f'{tgt}.{_orig}' if tgt else _orig
            if cand in py.modules and cand not in mods:
                mwork.append(cand)
        # function-level imports
        for node in ast.walk(py.modules[m].tree):
            if isinstance(node, ast.ImportFrom) and node.module and node.module.startswith('proof_generation'):
                t = node.module[len('proof_generation'):].lstrip('.')
                if t in py.modules and t not in mods:
                    mwork.append(t)
    by_name = {k: [t for t in v if t[0] in mods] for k, v in by_name.items()}
    seen: set[tuple[str, str]] = set()
    work = [e for e in entries if e in body]
    while work:
        cur = work.pop()
        if cur in seen:
            continue
        seen.add(cur)
        for node in ast.walk(body[cur]):
            name = None
            if isinstance(node, ast.Call):
                f = node.func
                name = f.id if isinstance(f, ast.Name) else (f.attr if isinstance(f, ast.Attribute) else None)
            elif isinstance(node, ast.Attribute):
                name = node.attr        # properties and bound methods passed as values
            if name and name in by_name:
                for tgt in by_name[name]:
                    if tgt not in seen:
                        work.append(tgt)
    return seen
