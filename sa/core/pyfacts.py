"""Engine A: module / class / method index of generation/src/proof_generation (tests excluded).

Nothing is imported or executed; every fact comes from `ast`.
"""
from __future__ import annotations

import ast
import os
from dataclasses import dataclass, field

from .report import AnalysisError, py_root

PKG = 'proof_generation'


@dataclass
class ClassInfo:
    name: str
    module: str
    node: ast.ClassDef
    bases: list[str]
    methods: dict[str, ast.FunctionDef] = field(default_factory=dict)
    fields: list[tuple[str, str]] = field(default_factory=list)      # annotated class-level fields (dataclass order)
    decorators: list[str] = field(default_factory=list)
    virtual: list[str] = field(default_factory=list)                   # methods synthesised from a self-dispatching base-class method
    abstract: bool = False                                             # an intermediate template class (hooks raise NotImplementedError)


@dataclass
class ModuleInfo:
    name: str                 # dotted, relative to the package: 'pattern', 'proofs.propositional'
    path: str
    tree: ast.Module
    source: str
    classes: dict[str, ClassInfo] = field(default_factory=dict)
    functions: dict[str, ast.FunctionDef] = field(default_factory=dict)
    imports: dict[str, tuple[str, str]] = field(default_factory=dict)   # local name -> (module, original name)
    assigns: dict[str, ast.expr] = field(default_factory=dict)          # module-level NAME = expr (last wins)
    assign_nodes: list[ast.stmt] = field(default_factory=list)


class PyRepo:
    _inst: dict[str, 'PyRepo'] = {}

    def __init__(self, root: str | None = None):
        self.root = root or py_root()
        if not os.path.isdir(self.root):
            raise AnalysisError(f'anchor vanished: {self.root}')
        self.modules: dict[str, ModuleInfo] = {}
        for dirpath, dirnames, filenames in os.walk(self.root):
            dirnames[:] = sorted(d for d in dirnames if d not in ('tests', '__pycache__'))
            for fn in sorted(filenames):
                if not fn.endswith('.py'):
                    continue
                path = os.path.join(dirpath, fn)
                rel = os.path.relpath(path, self.root)[:-3].replace(os.sep, '.')
                if rel.endswith('.__init__'):
                    rel = rel[:-9]
                with open(path, encoding='utf-8') as f:
                    src = f.read()
                try:
                    tree = ast.parse(src, filename=path)
                except SyntaxError as e:
                    raise AnalysisError(f'{path} does not parse: {e}')
                from .pynormal import fold_temporaries, worklist_to_recursion, poploop_to_for, eafp_to_lbyl, outline_accessors, \
                    while_true_to_test, inline_local_procedures, loop_to_comprehension, search_loop_to_membership, \
                    checked_unwrap_to_extract, match_to_if, optional_flag_to_test, nest_lifted_helpers, inline_simple_generators, \
                    extend_by_generator_to_appends, unpartial_private_helpers, dissolve_local_objects, bound_generator_to_list
                from .pynormal import inline_effectful_predicates, get_or_insert_to_membership, inline_private_byte_constants, dissolve_missing_dicts
                self.drained = getattr(self, 'drained', 0) + get_or_insert_to_membership(tree) + inline_private_byte_constants(tree) + dissolve_missing_dicts(tree)
                from .pynormal import inline_private_procedures, restore_static_aliases
                self.nested_helpers = getattr(self, 'nested_helpers', 0) + restore_static_aliases(tree)
                self.inlined_procs = getattr(self, 'inlined_procs', 0) + inline_private_procedures(tree)
                self.nested_helpers = getattr(self, 'nested_helpers', 0) + inline_effectful_predicates(tree) + unpartial_private_helpers(tree) + nest_lifted_helpers(tree) + dissolve_local_objects(tree)
                from .pynormal import single_return_closure_to_lambda
                self.nested_helpers += single_return_closure_to_lambda(tree)
                self.drained = getattr(self, 'drained', 0) + match_to_if(tree) + optional_flag_to_test(tree) + bound_generator_to_list(tree) + inline_simple_generators(tree) + extend_by_generator_to_appends(tree) + poploop_to_for(tree) + eafp_to_lbyl(tree)
                from .pynormal import specialise_tables
                self.tables_specialised = getattr(self, 'tables_specialised', 0) + sum(
                    specialise_tables(f_, tree) for f_ in [x for x in ast.walk(tree) if isinstance(x, ast.FunctionDef)])
                self.inlined_procs = getattr(self, 'inlined_procs', 0) + inline_local_procedures(tree)
                from .pynormal import merge_twin_branch_calls, unroll_callable_tuples
                self.drained += merge_twin_branch_calls(tree) + unroll_callable_tuples(tree)
                self.drained += while_true_to_test(tree) + loop_to_comprehension(tree) + checked_unwrap_to_extract(tree)
                from .pynormal import fold_list_building
                self.drained += fold_list_building(tree)
                self.folded = getattr(self, 'folded', 0) + fold_temporaries(tree)
                self.outlined = getattr(self, 'outlined', 0) + outline_accessors(tree)
                self.drained += search_loop_to_membership(tree)
                if not hasattr(self, 'early_accepts'):
                    self.early_accepts = []
                self.early_accepts += [(rel, c, m, n) for c, m, n in worklist_to_recursion(tree)]
                self.modules[rel] = self._index(rel, path, tree, src)
        self._materialise_installed_methods()
        self._inline_trivial_accessors()
        self._inline_private_value_methods()
        self._dissolve_delegating_methods()
        self._specialise_self_dispatch()
        self._pull_down_template_methods()
        # positional fields of dataclasses (for `case C(a, b)` patterns)
        from . import pyeval
        pyeval.register_match_fields({c.name: [n for n, _t in c.fields] for m in self.modules.values() for c in m.classes.values()
                                      if any(d.startswith('dataclass') for d in c.decorators)})

    def _materialise_installed_methods(self) -> None:
        """Methods installed after the class statement from a literal table,

            for name, label in TABLE.items():  /  for name in NAMES:
                setattr(C, name, make(name, label, <constants>))

        with `make` a module-level factory whose body defines one inner function, optionally sets its `__name__`, and returns it -
        bare or wrapped as `DECO(inner)` / `C.deco(args)(inner)` - are entered as methods of C: one copy of the inner function per
        table row, the factory's parameters replaced by the row's constants, the wrapper as its decorator.  Rules that read `C.m`
        then see the same code whether the project spells the methods out or generates them.  Anything else that installs
        attributes on a class at import time is recorded in `self.dynamic_installs` (rules that enumerate methods refuse to decide
        on such a class)."""
        import copy
        from .constfold import NotConstant, fold
        self.dynamic_installs = []
        self.materialised = 0
        for mname, mi in self.modules.items():
            consts = {}
            for st in mi.tree.body:
                if isinstance(st, (ast.Assign, ast.AnnAssign)) and st.value is not None:
                    t = st.targets[0] if isinstance(st, ast.Assign) else st.target
                    if isinstance(t, ast.Name):
                        try:
                            consts[t.id] = fold(st.value, consts=consts)
                        except (NotConstant, Exception):  # noqa: BLE001
                            pass
            for st in mi.tree.body:
                calls = [c for c in ast.walk(st) if isinstance(c, ast.Call) and isinstance(c.func, ast.Name) and c.func.id == 'setattr'
                         and len(c.args) == 3 and isinstance(c.args[0], ast.Name) and c.args[0].id in mi.classes] \
                    if not isinstance(st, (ast.FunctionDef, ast.ClassDef)) else []
                for c in calls:
                    ci = mi.classes[c.args[0].id]
                    done = False
                    single = isinstance(st, ast.Expr) and st.value is c and isinstance(c.args[1], ast.Constant) and isinstance(c.args[1].value, str)
                    if (single or isinstance(st, ast.For) and len(st.body) == 1 and isinstance(st.body[0], ast.Expr) and st.body[0].value is c) \
                            and isinstance(c.args[2], ast.Call) and isinstance(c.args[2].func, ast.Name) and c.args[2].func.id in mi.functions:
                        rows = None
                        it = st.iter if not single else None
                        # the table as written: rows of expressions (a dict display's keys and values, a tuple's elements)
                        lits = {}
                        for st0 in mi.tree.body:
                            if isinstance(st0, (ast.Assign, ast.AnnAssign)) and st0.value is not None:
                                t0 = st0.targets[0] if isinstance(st0, ast.Assign) else st0.target
                                if isinstance(t0, ast.Name):
                                    lits[t0.id] = st0.value

                        def literal(e):
                            return lits.get(e.id) if isinstance(e, ast.Name) else e
                        if single:
                            rows = [()]
                        elif isinstance(it, ast.Call) and isinstance(it.func, ast.Attribute) and it.func.attr == 'items' and not it.args \
                                and isinstance(literal(it.func.value), ast.Dict) and all(isinstance(k, ast.Constant) for k in literal(it.func.value).keys):
                            d_ = literal(it.func.value)
                            rows = [(k, v) for k, v in zip(d_.keys, d_.values)]
                        elif isinstance(literal(it), (ast.Tuple, ast.List)) and not any(isinstance(x, ast.Starred) for x in literal(it).elts):
                            rows = [tuple(x.elts) if isinstance(x, ast.Tuple) else (x,) for x in literal(it).elts]
                        elif isinstance(literal(it), ast.Dict) and all(isinstance(k, ast.Constant) for k in literal(it).keys):
                            rows = [(k,) for k in literal(it).keys]
                        def flat_t(t):
                            return [y for x in t.elts for y in flat_t(x)] if isinstance(t, (ast.Tuple, ast.List)) else [t]

                        def flat_r(t, v):
                            # a row laid out like the (possibly nested) loop target
                            if isinstance(t, (ast.Tuple, ast.List)):
                                if not (isinstance(v, (ast.Tuple, ast.List)) and len(v.elts) == len(t.elts)):
                                    return None
                                out = []
                                for t_, v_ in zip(t.elts, v.elts):
                                    sub = flat_r(t_, v_)
                                    if sub is None:
                                        return None
                                    out += sub
                                return out
                            return [v]
                        if not single and rows is not None and isinstance(st.target, ast.Tuple) and any(isinstance(x, (ast.Tuple, ast.List)) for x in st.target.elts):
                            rows2 = [flat_r(st.target, ast.Tuple(elts=list(r), ctx=ast.Load())) for r in rows]
                            rows = None if any(r is None for r in rows2) else [tuple(r) for r in rows2]
                        tg = [] if single else [t.id for t in flat_t(st.target) if isinstance(t, ast.Name)]
                        factory = mi.functions[c.args[2].func.id]
                        fbody = [x for x in factory.body if not (isinstance(x, ast.Expr) and isinstance(x.value, ast.Constant))]
                        inner = [x for x in fbody if isinstance(x, ast.FunctionDef)]
                        ret = [x for x in fbody if isinstance(x, ast.Return)]
                        other = [x for x in fbody if x not in inner and x not in ret
                                 and not (isinstance(x, ast.Assign) and ast.unparse(x.targets[0]).endswith(('.__name__', '.__qualname__', '.__doc__')))]
                        if rows is not None and (tg or single) and all(len(r) == len(tg) for r in rows) and len(inner) == 1 and len(ret) == 1 and not other \
                                and (single or isinstance(c.args[1], ast.Name) and c.args[1].id in tg) and not c.args[2].keywords:
                            fparams = [a.arg for a in factory.args.args]
                            deco = None
                            rv = ret[0].value
                            if isinstance(rv, ast.Call) and len(rv.args) == 1 and isinstance(rv.args[0], ast.Name) and rv.args[0].id == inner[0].name:
                                deco = rv.func
                            elif not (isinstance(rv, ast.Name) and rv.id == inner[0].name):
                                rows = None
                            if rows is not None and len(c.args[2].args) == len(fparams):
                                for row in rows:
                                    env = dict(zip(tg, row))
                                    bind = {}
                                    okb = True
                                    for p_, a_ in zip(fparams, c.args[2].args):
                                        if isinstance(a_, ast.Name) and a_.id in env:
                                            bind[p_] = env[a_.id]
                                        elif isinstance(a_, ast.Constant):
                                            bind[p_] = a_
                                        else:
                                            okb = False
                                    if not okb:
                                        rows = None
                                        break

                                    class S(ast.NodeTransformer):
                                        def visit_Name(self, n):
                                            if n.id in bind and isinstance(n.ctx, ast.Load):
                                                return ast.copy_location(copy.deepcopy(bind[n.id]), n)
                                            return n
                                    g = S().visit(copy.deepcopy(inner[0]))
                                    nm = c.args[1] if single else env[c.args[1].id]
                                    if not (isinstance(nm, ast.Constant) and isinstance(nm.value, str)):
                                        rows = None
                                        break
                                    g.name = nm.value
                                    self._destar_installed(ci, g, mname)
                                    if deco is not None:
                                        d2 = S().visit(copy.deepcopy(deco))
                                        # `C.deco(args)` spelled inside the class body is `deco(args)`
                                        if isinstance(d2, ast.Call) and isinstance(d2.func, ast.Attribute) and isinstance(d2.func.value, ast.Name) \
                                                and d2.func.value.id == ci.name:
                                            d2.func = ast.Name(id=d2.func.attr, ctx=ast.Load())
                                        g.decorator_list = [d2] + list(g.decorator_list)
                                    for n in ast.walk(g):
                                        if hasattr(n, 'lineno'):
                                            n.lineno = n.end_lineno = st.lineno
                                    ast.fix_missing_locations(g)
                                    ci.methods[g.name] = g
                                    ci.node.body.append(g)
                                    ci.virtual.append(g.name)
                                    self.materialised += 1
                                done = rows is not None
                    if not done:
                        self.dynamic_installs.append((mname, ci.name, c))

    def _destar_installed(self, ci, g, mname) -> None:
        """a generated method `def m(self, *args[, **kwargs])` that overrides a method of a base class is given that method's
        parameter list: `*args` in calls becomes the parameters, `args[i]` the i-th one, `args[:k]` the first k, `**kwargs` in the
        forwarding call disappears (the parameters are passed by name or position alike).  When the method took `**kwargs` as well
        and reads `args` other than to forward it, what it does with an argument depends on HOW the caller passed it: recorded in
        `self.call_style_operands` (a rule of C02 / C14 reports it)."""
        import copy
        from .pynormal import fold_reflective_calls
        if not hasattr(self, 'call_style_operands'):
            self.call_style_operands = []
        if g.args.vararg is None:
            return
        base = None
        for mi2 in self.modules.values():
            pass
        try:
            chain = self.mro(ci)[1:]
        except Exception:  # noqa: BLE001
            chain = []
        base = next((k.methods[g.name] for k in chain if g.name in k.methods), None)
        if base is None or base.args.vararg or base.args.kwarg or base.args.kwonlyargs or len(g.args.args) != 1:
            return
        A = g.args.vararg.arg
        K = g.args.kwarg.arg if g.args.kwarg is not None else None
        params = [a.arg for a in base.args.args[1:]]
        fold_reflective_calls(g)
        other_use = [0]

        class D(ast.NodeTransformer):
            def visit_Call(self, c):
                new = []
                for a in c.args:
                    if isinstance(a, ast.Starred) and isinstance(a.value, ast.Name) and a.value.id == A:
                        new.extend(ast.Name(id=p_, ctx=ast.Load()) for p_ in params)
                    else:
                        new.append(self.visit(a))
                c.args = new
                c.keywords = [k for k in c.keywords if not (k.arg is None and isinstance(k.value, ast.Name) and k.value.id == K)]
                for k in c.keywords:
                    k.value = self.visit(k.value)
                c.func = self.visit(c.func)
                return c

            def visit_Subscript(self, sub):
                if isinstance(sub.value, ast.Name) and sub.value.id == A and isinstance(sub.ctx, ast.Load):
                    sl = sub.slice
                    if isinstance(sl, ast.Constant) and type(sl.value) is int and 0 <= sl.value < len(params):
                        other_use[0] += 1
                        return ast.copy_location(ast.Name(id=params[sl.value], ctx=ast.Load()), sub)
                    if isinstance(sl, ast.Slice) and sl.step is None and all(x is None or (isinstance(x, ast.Constant) and type(x.value) is int and x.value >= 0)
                                                                             for x in (sl.lower, sl.upper)):
                        lo = sl.lower.value if sl.lower is not None else 0
                        hi = sl.upper.value if sl.upper is not None else len(params)
                        other_use[0] += 1 if params[lo:hi] else 0
                        return ast.copy_location(ast.List(elts=[ast.Name(id=p_, ctx=ast.Load()) for p_ in params[lo:hi]], ctx=ast.Load()), sub)
                return self.generic_visit(sub)

            def visit_Starred(self, st_):
                if isinstance(st_.value, ast.Name) and st_.value.id == A:
                    other_use[0] += 1
                    return ast.copy_location(ast.Starred(value=ast.List(elts=[ast.Name(id=p_, ctx=ast.Load()) for p_ in params], ctx=ast.Load()), ctx=ast.Load()), st_)
                return self.generic_visit(st_)
        g.body = [D().visit(b) for b in g.body]
        if any(isinstance(x, ast.Name) and x.id in (A, K) for b in g.body for x in ast.walk(b)):
            return                                   # some use of args / kwargs was not understood: leave the method as generated
        g.args = ast.arguments(posonlyargs=[], args=[g.args.args[0]] + [ast.arg(arg=p_) for p_ in params], vararg=None, kwonlyargs=[], kw_defaults=[],
                               kwarg=None, defaults=[])
        fold_reflective_calls(g)
        # `super(C, self)` inside a method installed on C is `super()` of a method written in C's body
        for c_ in ast.walk(g):
            if isinstance(c_, ast.Call) and isinstance(c_.func, ast.Name) and c_.func.id == 'super' and len(c_.args) == 2 \
                    and isinstance(c_.args[0], ast.Name) and c_.args[0].id == ci.name and isinstance(c_.args[1], ast.Name) and c_.args[1].id == g.args.args[0].arg:
                c_.args = []
        if K is not None and other_use[0]:
            self.call_style_operands.append((mname, ci.name, g.name, g))

    def _inline_private_value_methods(self) -> None:
        """A private method that computes a value - statements followed by one `return E`, no other return, no loop, not overridden,
        not recursive - and is called as `x = self._m(a, b)` / `x, y = self._m(a, b)` with plain arguments is written out at those
        calls (pynormal.expand_assigned_calls: parameters bound, locals renamed apart, the return turned into the assignment; a
        returned pair unpacked component by component).  The method itself stays.  Rules that follow a value through one method
        body (the walk over a pattern, the operands of a call) then see the statements whether or not the project gave them a name."""
        import copy
        from .pynormal import expand_assigned_calls, unpack_display_assign, fold_temporaries
        self.value_methods_inlined = 0
        all_classes = [c for m in self.modules.values() for c in m.classes.values()]
        for ci in all_classes:
            subs = [c for c in all_classes if c is not ci and any(b is ci for b in self.mro(c)[1:])]
            for gname, g in list(ci.methods.items()):
                if not gname.startswith('_') or gname.startswith('__') or g.decorator_list or any(gname in c.methods for c in subs):
                    continue
                if g.args.vararg or g.args.kwarg or g.args.kwonlyargs or g.args.defaults or len(g.args.args) < 1:
                    continue
                body = [x for x in g.body if not (isinstance(x, ast.Expr) and isinstance(x.value, ast.Constant))]
                rets = [x for x in ast.walk(g) if isinstance(x, ast.Return)]
                if len(body) < 2 or len(rets) != 1 or rets[0] is not body[-1] or rets[0].value is None:
                    continue
                if any(isinstance(x, (ast.For, ast.While, ast.FunctionDef, ast.Lambda, ast.Yield, ast.YieldFrom, ast.Try, ast.With)) and x is not g for x in ast.walk(g)):
                    continue
                sname = g.args.args[0].arg
                if any(isinstance(x, ast.Attribute) and x.attr == gname and isinstance(x.value, ast.Name) and x.value.id == sname for x in ast.walk(g)):
                    continue
                wrapper = copy.deepcopy(g)
                wrapper.args.args = wrapper.args.args[1:]
                for k in [ci] + subs:
                    for fname, f in list(k.methods.items()):
                        if f is g or not f.args.args or f.args.args[0].arg != sname:
                            continue
                        sites = [st for st in ast.walk(f) if isinstance(st, ast.Assign) and isinstance(st.value, ast.Call)
                                 and isinstance(st.value.func, ast.Attribute) and st.value.func.attr == gname
                                 and isinstance(st.value.func.value, ast.Name) and st.value.func.value.id == sname
                                 and not st.value.keywords and len(st.value.args) == len(wrapper.args.args)
                                 and all(isinstance(a, (ast.Name, ast.Attribute, ast.Constant)) for a in st.value.args)]
                        if not sites or any(isinstance(x, ast.Name) and x.id == gname for x in ast.walk(f)):
                            continue
                        saved = [(st, st.value.func) for st in sites]
                        for st in sites:
                            st.value.func = ast.copy_location(ast.Name(id=gname, ctx=ast.Load()), st.value.func)
                        f2 = expand_assigned_calls(f, lambda nm: wrapper if nm == gname else None)
                        for st, fu in saved:
                            st.value.func = fu
                        if any(isinstance(x, ast.Name) and x.id == gname for x in ast.walk(f2)):
                            continue                               # not written out (shape outside what expand_assigned_calls reads)
                        for _ in range(3):
                            if not (unpack_display_assign(f2) + fold_temporaries(ast.Module(body=[f2], type_ignores=[]))):
                                break
                        k.methods[fname] = f2
                        if f in k.node.body:
                            k.node.body[k.node.body.index(f)] = f2
                        self.value_methods_inlined += 1

    def _inline_trivial_accessors(self) -> None:
        """A private property or one-line private method of a class - `def _top(self): return self.stack[-1]`,
        `def _remember(self, e): self.memory.append(e)` - that no subclass overrides is its body: uses on `self` inside the class
        and its subclasses are replaced by the body with the arguments in place of the parameters (an argument that is not a plain
        name / attribute / constant only when the parameter occurs once).  Rules that read `self.stack[-1]` then see it whether or
        not the project names it."""
        import copy
        self.accessors_inlined = 0
        all_classes = [c for m in self.modules.values() for c in m.classes.values()]
        for ci in all_classes:
            subs = [c for c in all_classes if c is not ci and any(b.name == ci.name and b is ci for b in self.mro(c)[1:])]
            family = [ci] + subs
            for aname, g in list(ci.methods.items()):
                if not aname.startswith('_') or aname.startswith('__') or any(aname in c.methods for c in subs):
                    continue
                decos = [ast.unparse(d) for d in g.decorator_list]
                if decos not in ([], ['property']):
                    continue
                body = [st for st in g.body if not (isinstance(st, ast.Expr) and isinstance(st.value, ast.Constant))]
                if len(body) != 1 or g.args.vararg or g.args.kwarg or g.args.kwonlyargs or g.args.defaults or not g.args.args:
                    continue
                is_prop = decos == ['property']
                if isinstance(body[0], ast.Return) and body[0].value is not None:
                    expr, proc = body[0].value, False
                elif isinstance(body[0], ast.Expr) and isinstance(body[0].value, ast.Call) and not is_prop:
                    expr, proc = body[0].value, True
                else:
                    continue
                if any(isinstance(n, (ast.Lambda, ast.NamedExpr, ast.Yield, ast.YieldFrom, ast.Await)) for n in ast.walk(expr)):
                    continue
                if any(isinstance(n, ast.Attribute) and isinstance(n.value, ast.Name) and n.value.id == g.args.args[0].arg and n.attr == aname
                       for n in ast.walk(expr)):
                    continue                              # refers to itself
                sname = g.args.args[0].arg
                params = [a.arg for a in g.args.args[1:]]
                if is_prop and params:
                    continue
                uses_of = {p_: sum(1 for n in ast.walk(expr) if isinstance(n, ast.Name) and n.id == p_) for p_ in params}

                def simple(e):
                    while isinstance(e, ast.Attribute):
                        e = e.value
                    return isinstance(e, (ast.Name, ast.Constant))

                def build(args, self_expr):
                    table = dict(zip(params, args))
                    table[sname] = self_expr

                    class S(ast.NodeTransformer):
                        def visit_Name(self, n):
                            if n.id in table and isinstance(n.ctx, ast.Load):
                                return ast.copy_location(copy.deepcopy(table[n.id]), n)
                            return n
                    return S().visit(copy.deepcopy(expr))

                outer = self

                class U(ast.NodeTransformer):
                    def visit_Call(self, n):
                        self.generic_visit(n)
                        if not is_prop and isinstance(n.func, ast.Attribute) and n.func.attr == aname and isinstance(n.func.value, ast.Name) \
                                and n.func.value.id == 'self' and not n.keywords and len(n.args) == len(params) \
                                and not any(isinstance(a, ast.Starred) for a in n.args) \
                                and all(simple(a) or uses_of[p_] == 1 for p_, a in zip(params, n.args)):
                            outer.accessors_inlined += 1
                            return ast.copy_location(build(n.args, n.func.value), n)
                        return n

                    def visit_Attribute(self, n):
                        self.generic_visit(n)
                        if is_prop and n.attr == aname and isinstance(n.value, ast.Name) and n.value.id == 'self' and isinstance(n.ctx, ast.Load):
                            outer.accessors_inlined += 1
                            return ast.copy_location(build([], n.value), n)
                        return n
                for c in family:
                    for mname, m in c.methods.items():
                        if m is g:
                            continue
                        U().visit(m)
                        ast.fix_missing_locations(m)

    def _dissolve_delegating_methods(self) -> None:
        """A method that is nothing but `return helper(<simple arguments>)` of a module-level function of its own module IS that
        function's body with the arguments in place of the parameters: the method's body is replaced by it, so that a rule reading
        `C.m` sees the same code whether the project writes the loop in each class or once in a shared module-level helper.
        (The helper must not rebind its parameters, recurse, or be a generator; arguments are names / attribute chains / constants.)"""
        import copy
        self.dissolved = 0

        def simple(e):
            while isinstance(e, ast.Attribute):
                e = e.value
            return isinstance(e, (ast.Name, ast.Constant))

        for mi in self.modules.values():
            for c in mi.classes.values():
                for mname, fn in c.methods.items():
                    body = [st for st in fn.body if not (isinstance(st, ast.Expr) and isinstance(st.value, ast.Constant))]
                    if len(body) != 1 or not isinstance(body[0], ast.Return) or not isinstance(body[0].value, ast.Call):
                        continue
                    call = body[0].value
                    if not isinstance(call.func, ast.Name) or call.keywords or not all(simple(a) for a in call.args):
                        continue
                    g = mi.functions.get(call.func.id)
                    if g is None or g.decorator_list or g.args.vararg or g.args.kwarg or g.args.kwonlyargs \
                            or len(g.args.args) != len(call.args):
                        continue
                    params = [a.arg for a in g.args.args]
                    inner = [n for st in g.body for n in ast.walk(st)]
                    if any(isinstance(n, (ast.Yield, ast.YieldFrom, ast.FunctionDef, ast.Lambda, ast.Global, ast.Nonlocal)) for n in inner):
                        continue
                    if any(isinstance(n, ast.Name) and n.id in params and isinstance(n.ctx, (ast.Store, ast.Del)) for n in inner):
                        continue
                    if any(isinstance(n, ast.Name) and n.id == g.name for n in inner):
                        continue
                    # the helper's locals must not capture a name the arguments mention
                    arg_names = {n.id for a in call.args for n in ast.walk(a) if isinstance(n, ast.Name)}
                    if any(isinstance(n, ast.Name) and isinstance(n.ctx, ast.Store) and n.id in arg_names for n in inner):
                        continue
                    sub = dict(zip(params, call.args))

                    class S(ast.NodeTransformer):
                        def visit_Name(self, node):
                            if node.id in sub and isinstance(node.ctx, ast.Load):
                                return ast.copy_location(copy.deepcopy(sub[node.id]), node)
                            return node

                    new = [S().visit(copy.deepcopy(st)) for st in g.body
                           if not (isinstance(st, ast.Expr) and isinstance(st.value, ast.Constant))]
                    for st in new:
                        for n in ast.walk(st):
                            if hasattr(n, 'lineno'):
                                n.lineno = n.end_lineno = fn.lineno + 1
                        ast.fix_missing_locations(st)
                    fn.body = new
                    self.dissolved += 1

    def _pull_down_template_methods(self) -> None:
        """An intermediate class that is never instantiated itself - it is not a dataclass, all its direct subclasses are, and no
        `B(..)` call exists in the package - and implements operations for its subclasses (directly, or through hooks that only raise
        NotImplementedError and that every subclass defines: template method) is implementation sharing: for each concrete subclass the inherited operation is entered as that
        subclass's own (synthesised) method, so that `C.apply_esubst` is the same function whether the project writes it once per
        constructor or once in a shared base.  The intermediate class is marked `abstract` and is not a constructor of its own."""
        import copy
        for mi in self.modules.values():
            for b in mi.classes.values():
                if not b.bases:
                    continue
                base_is_dc = any(d.startswith('dataclass') for d in b.decorators)
                hooks = [m for m, g in b.methods.items()
                         if [type(st) for st in g.body if not (isinstance(st, ast.Expr) and isinstance(st.value, ast.Constant))] == [ast.Raise]
                         and 'NotImplementedError' in ast.unparse(g.body[-1])]
                subs = [c for c in mi.classes.values() if c is not b and b.name in c.bases]
                if not subs or not all(any(d.startswith('dataclass') for d in c.decorators) for c in subs):
                    continue
                # the root of the hierarchy (all of whose methods are such stubs) is not a sharing class
                if hooks and len(hooks) == len(b.methods):
                    continue
                if not all(all(h in c.methods for h in hooks) for c in subs):
                    continue
                # never instantiated itself: no call `B(..)` anywhere in the package
                if any(isinstance(n, ast.Call) and isinstance(n.func, ast.Name) and n.func.id == b.name
                       for m2 in self.modules.values() for n in ast.walk(m2.tree)):
                    continue
                if base_is_dc and any(set(f for f, _t in c.fields) & set(f for f, _t in b.fields) for c in subs):
                    continue
                b.abstract = True
                for c in subs:
                    if base_is_dc:
                        # a dataclass inherits the fields of a dataclass base, in front of its own
                        c.fields = list(b.fields) + list(c.fields)
                    for mname, g in b.methods.items():
                        if mname in hooks or mname in c.methods or (mname.startswith('__') and not base_is_dc):
                            continue
                        g2 = copy.deepcopy(g)
                        # inside the copy the class of `self` is known: type(self) / cls (of a classmethod) is C
                        is_cm = any(isinstance(d, ast.Name) and d.id == 'classmethod' for d in g2.decorator_list)
                        first = g2.args.args[0].arg if g2.args.args else None

                        class K(ast.NodeTransformer):
                            def visit_Call(self, n):
                                self.generic_visit(n)
                                if isinstance(n.func, ast.Name) and n.func.id == 'type' and len(n.args) == 1 and isinstance(n.args[0], ast.Name) \
                                        and n.args[0].id == first and not is_cm:
                                    return ast.copy_location(ast.Name(id=c.name, ctx=ast.Load()), n)
                                return n

                            def visit_Name(self, n):
                                if is_cm and n.id == first and isinstance(n.ctx, ast.Load):
                                    return ast.copy_location(ast.Name(id=c.name, ctx=ast.Load()), n)
                                return n
                        g2 = K().visit(g2)
                        if is_cm:
                            g2.decorator_list = [ast.Name(id='staticmethod', ctx=ast.Load()) if isinstance(d, ast.Name) and d.id == 'classmethod' else d
                                                 for d in g2.decorator_list]
                            g2.args.args = g2.args.args[1:]
                        c.methods[mname] = ast.fix_missing_locations(g2)
                        c.virtual.append(mname)

    def _specialise_self_dispatch(self) -> None:
        """A base-class method written as one dispatch over the class of `self` (`match self: case C(..)` / `if isinstance(self, C)`)
        is, for each subclass that does not override it, the method consisting of that subclass's arm.  Such arms are added to the
        subclass as (synthesised) methods, so that every rule that reads `C.m` sees the same code whether the project spells it as
        an override per class or as one dispatch in the base class.  `ClassInfo.virtual` lists the synthesised names."""
        import copy
        for mi in self.modules.values():
            for ci in mi.classes.values():
                chain = self.mro(ci)
                for base in chain[1:]:
                    for mname, fn in base.methods.items():
                        if mname in ci.methods or mname.startswith('__') or not fn.args.args:
                            continue
                        if any(mname in c.methods for c in chain[1:chain.index(base)]):
                            continue
                        selfname = fn.args.args[0].arg
                        dispatches = any((isinstance(n, ast.Match) and ast.unparse(n.subject) == selfname) or
                                         (isinstance(n, ast.Call) and isinstance(n.func, ast.Name) and n.func.id == 'isinstance' and n.args
                                          and ast.unparse(n.args[0]) == selfname) for n in ast.walk(fn))
                        if not dispatches:
                            continue
                        body = self._arm_for(fn.body, selfname, ci, chain)
                        if body is None:
                            continue
                        g = copy.copy(fn)
                        g.body = body or [ast.copy_location(ast.Pass(), fn)]
                        ci.methods[mname] = ast.fix_missing_locations(g)
                        ci.virtual.append(mname)

    def _arm_for(self, body, selfname: str, ci: ClassInfo, chain):
        """the statements of a self-dispatching method that run when self is exactly an instance of `ci`; None if undecidable"""
        import copy
        names = {c.name for c in chain}
        all_classes = {c.name for m in self.modules.values() for c in m.classes.values()}

        def is_inst(cls_expr):
            """True / False / None for isinstance(self, cls_expr)"""
            elts = cls_expr.elts if isinstance(cls_expr, ast.Tuple) else [cls_expr]
            ns = [ast.unparse(e).split('.')[-1] for e in elts]
            if any(n in names for n in ns):
                return True
            if all(n in all_classes for n in ns):
                # unrelated package classes: false unless one of them is a subclass of ci (self could be that subclass)
                for n in ns:
                    c2 = self.find_class(n, ci.module)
                    if c2 is not None and any(x.name == ci.name for x in self.mro(c2)):
                        return None
                return False
            return None

        def val(t):
            if isinstance(t, ast.UnaryOp) and isinstance(t.op, ast.Not):
                v = val(t.operand)
                return None if v is None else not v
            if isinstance(t, ast.Call) and isinstance(t.func, ast.Name) and t.func.id == 'isinstance' and len(t.args) == 2 \
                    and ast.unparse(t.args[0]) == selfname:
                return is_inst(t.args[1])
            if isinstance(t, ast.BoolOp):
                vs = [val(x) for x in t.values]
                if isinstance(t.op, ast.And):
                    return False if any(v is False for v in vs) else (True if all(v is True for v in vs) else None)
                return True if any(v is True for v in vs) else (False if all(v is False for v in vs) else None)
            return None

        def case_matches(pat):
            """-> (True/False/None, bindings) for one case pattern"""
            if isinstance(pat, ast.MatchOr):
                undecided = False
                for sub in pat.patterns:
                    m, b = case_matches(sub)
                    if m is True:
                        return True, b
                    if m is None:
                        undecided = True
                return (None if undecided else False), []
            if isinstance(pat, ast.MatchAs) and pat.pattern is None:
                return True, ([] if pat.name is None else [(pat.name, ast.Name(id=selfname, ctx=ast.Load()))])
            if isinstance(pat, ast.MatchAs) and pat.pattern is not None:
                m, b = case_matches(pat.pattern)           # `case C(..) as x`
                return m, (b + ([(pat.name, ast.Name(id=selfname, ctx=ast.Load()))] if pat.name else [])) if m is True else []
            if isinstance(pat, ast.MatchClass):
                m = is_inst(pat.cls)
                if m is not True:
                    return m, []
                cls = self.find_class(ast.unparse(pat.cls).split('.')[-1], ci.module)
                flds = [n for n, _t in (cls.fields if cls is not None else [])]
                binds = []
                for i, sp in enumerate(pat.patterns):
                    if not (isinstance(sp, ast.MatchAs) and sp.pattern is None):
                        return None, []
                    if sp.name is not None:
                        if i >= len(flds):
                            return None, []
                        binds.append((sp.name, ast.Attribute(value=ast.Name(id=selfname, ctx=ast.Load()), attr=flds[i], ctx=ast.Load())))
                for kw, sp in zip(pat.kwd_attrs, pat.kwd_patterns):
                    if not (isinstance(sp, ast.MatchAs) and sp.pattern is None):
                        return None, []
                    if sp.name is not None:
                        binds.append((sp.name, ast.Attribute(value=ast.Name(id=selfname, ctx=ast.Load()), attr=kw, ctx=ast.Load())))
                return True, binds
            return None, []

        def go(stmts):
            out = []
            for st in stmts:
                if isinstance(st, ast.Match) and ast.unparse(st.subject) == selfname:
                    taken = None
                    for case in st.cases:
                        m, binds = case_matches(case.pattern)
                        if m is None or (m is True and case.guard is not None):
                            return None
                        if m is True:
                            taken = [ast.Assign(targets=[ast.Name(id=n, ctx=ast.Store())], value=v, lineno=case.body[0].lineno,
                                                col_offset=0) for n, v in binds] + list(case.body)
                            break
                    if taken is not None:
                        sub = go(taken)
                        if sub is None:
                            return None
                        out.extend(sub)
                        if sub and isinstance(sub[-1], (ast.Return, ast.Raise)):
                            return out
                    continue
                if isinstance(st, ast.If):
                    v = val(st.test)
                    if v is None:
                        a, b = go(st.body), go(st.orelse)
                        if a is None or b is None:
                            return None
                        node = copy.copy(st)
                        node.body, node.orelse = a or [ast.copy_location(ast.Pass(), st)], b
                        out.append(node)
                        continue
                    sub = go(st.body if v else st.orelse)
                    if sub is None:
                        return None
                    out.extend(sub)
                    if sub and isinstance(sub[-1], (ast.Return, ast.Raise)):
                        return out
                    continue
                out.append(st)
                if isinstance(st, (ast.Return, ast.Raise)):
                    return out
            return out
        return go(list(body))

    @classmethod
    def get(cls, root: str | None = None) -> 'PyRepo':
        key = root or py_root()
        if key not in cls._inst:
            cls._inst[key] = PyRepo(key)
        return cls._inst[key]

    # ------------------------------------------------------------------
    def _index(self, name: str, path: str, tree: ast.Module, src: str) -> ModuleInfo:
        mi = ModuleInfo(name, path, tree, src)

        def visit_body(body):
            for n in body:
                if isinstance(n, ast.ClassDef):
                    ci = ClassInfo(n.name, name, n, [ast.unparse(b) for b in n.bases],
                                   decorators=[ast.unparse(d) for d in n.decorator_list])
                    for m in n.body:
                        if isinstance(m, (ast.FunctionDef, ast.AsyncFunctionDef)):
                            ci.methods[m.name] = m
                        elif isinstance(m, ast.AnnAssign) and isinstance(m.target, ast.Name):
                            ci.fields.append((m.target.id, ast.unparse(m.annotation)))
                    mi.classes[n.name] = ci
                elif isinstance(n, (ast.FunctionDef, ast.AsyncFunctionDef)):
                    mi.functions[n.name] = n
                elif isinstance(n, ast.ImportFrom):
                    mod = self._resolve_from(name, n)
                    for a in n.names:
                        mi.imports[a.asname or a.name] = (mod, a.name)
                elif isinstance(n, ast.Import):
                    for a in n.names:
                        mi.imports[a.asname or a.name.split('.')[0]] = (self._strip_pkg(a.name), '')
                elif isinstance(n, ast.Assign):
                    mi.assign_nodes.append(n)
                    for t in n.targets:
                        if isinstance(t, ast.Name):
                            mi.assigns[t.id] = n.value
                elif isinstance(n, ast.AnnAssign) and isinstance(n.target, ast.Name) and n.value is not None:
                    mi.assign_nodes.append(n)
                    mi.assigns[n.target.id] = n.value
                elif isinstance(n, ast.If):
                    # `if TYPE_CHECKING:` imports matter for annotations
                    visit_body(n.body)
                    visit_body(n.orelse)

        visit_body(tree.body)
        return mi

    @staticmethod
    def _strip_pkg(mod: str) -> str:
        if mod == PKG:
            return ''
        if mod.startswith(PKG + '.'):
            return mod[len(PKG) + 1:]
        return 'ext:' + mod

    def _resolve_from(self, cur: str, n: ast.ImportFrom) -> str:
        if n.level:
            parts = cur.split('.')
            # a module `a.b` lives in package `a`; level 1 = that package
            base = parts[:-1]
            if n.level > 1:
                base = base[:len(base) - (n.level - 1)]
            mod = '.'.join(base + ([n.module] if n.module else []))
            return mod
        return self._strip_pkg(n.module or '')

    # ------------------------------------------------------------------
    def module(self, name: str) -> ModuleInfo:
        if name not in self.modules:
            raise AnalysisError(f'anchor vanished: module {name}')
        return self.modules[name]

    def find_class(self, name: str, frm: str | None = None) -> ClassInfo | None:
        """Resolve a class name as seen from module `frm` (through its imports), else globally if unique."""
        name = name.split('[')[0].strip().strip("'\"")
        if '.' in name:
            head, _, tail = name.partition('.')
            if frm and head in self.modules[frm].imports:
                mod = self.modules[frm].imports[head][0]
                if mod in self.modules and tail in self.modules[mod].classes:
                    return self.modules[mod].classes[tail]
            name = name.split('.')[-1]
        if frm:
            mi = self.modules[frm]
            if name in mi.classes:
                return mi.classes[name]
            if name in mi.imports:
                mod, orig = mi.imports[name]
                if mod in self.modules and orig in self.modules[mod].classes:
                    return self.modules[mod].classes[orig]
        cands = [m.classes[name] for m in self.modules.values() if name in m.classes]
        if len(cands) == 1:
            return cands[0]
        return None

    def cls(self, name: str, frm: str | None = None) -> ClassInfo:
        c = self.find_class(name, frm)
        if c is None:
            raise AnalysisError(f'anchor vanished: class {name}')
        return c

    def mro(self, ci: ClassInfo) -> list[ClassInfo]:
        """C3 linearisation over the classes of the package (bases outside the package are ignored); falls back to first-base-first
        depth-first order if the hierarchy is not linearisable."""
        def key(c):
            return (c.module, c.name)

        def dfs(c, out, seen):
            if key(c) in seen:
                return
            seen.add(key(c))
            out.append(c)
            for b in c.bases:
                bc = self.find_class(b, c.module)
                if bc is not None:
                    dfs(bc, out, seen)

        def c3(c, stack):
            if key(c) in stack:
                raise ValueError('cycle')
            bases = [bc for bc in (self.find_class(b, c.module) for b in c.bases) if bc is not None]
            seqs = [c3(b, stack | {key(c)}) for b in bases] + [list(bases)]
            out = [c]
            seqs = [list(q) for q in seqs if q]
            while seqs:
                for q in seqs:
                    head = q[0]
                    if not any(key(head) in [key(x) for x in r[1:]] for r in seqs):
                        break
                else:
                    raise ValueError('inconsistent hierarchy')
                out.append(head)
                seqs = [[x for x in q if key(x) != key(head)] for q in seqs]
                seqs = [q for q in seqs if q]
            return out

        try:
            return c3(ci, frozenset())
        except ValueError:
            out: list[ClassInfo] = []
            dfs(ci, out, set())
            return out

    def find_method(self, ci: ClassInfo, name: str, after: ClassInfo | None = None):
        """(owner, FunctionDef) of `name` looked up from `ci` (or from the class after `after` in the MRO = super())."""
        chain = self.mro(ci)
        if after is not None:
            idx = [i for i, c in enumerate(chain) if c is after or (c.module, c.name) == (after.module, after.name)]
            if not idx:
                return None
            chain = chain[idx[0] + 1:]
        for c in chain:
            if name in c.methods:
                return c, c.methods[name]
        return None

    def subclasses(self, ci: ClassInfo) -> list[ClassInfo]:
        out = []
        for m in self.modules.values():
            for c in m.classes.values():
                if c is ci or c.abstract:
                    continue                     # (a template class is not a member of the hierarchy in its own right)
                if any((x.module, x.name) == (ci.module, ci.name) for x in self.mro(c)[1:]):
                    out.append(c)
        return out

    def method(self, cls_name: str, meth: str, frm: str | None = None) -> ast.FunctionDef:
        ci = self.cls(cls_name, frm)
        if meth not in ci.methods:
            raise AnalysisError(f'anchor vanished: {cls_name}.{meth}')
        return ci.methods[meth]

    def function(self, module: str, name: str) -> ast.FunctionDef:
        mi = self.module(module)
        if name not in mi.functions:
            raise AnalysisError(f'anchor vanished: {module}.{name}')
        return mi.functions[name]

    def where(self, module: str, node: ast.AST | None = None) -> str:
        mi = self.modules[module]
        rel = os.path.relpath(mi.path, os.path.dirname(os.path.dirname(os.path.dirname(self.root))))
        return f'{rel}:{getattr(node, "lineno", 0)}' if node is not None else rel

    def all_functions(self):
        """(module, qualified name, FunctionDef, ClassInfo|None) for every def, including nested ones."""
        for mname, mi in self.modules.items():
            for f in mi.functions.values():
                yield mname, f.name, f, None
            for c in mi.classes.values():
                for f in c.methods.values():
                    yield mname, f'{c.name}.{f.name}', f, c


def self_method_resolver(py: 'PyRepo', ci: ClassInfo, self_value, exclude: tuple = (), only_private: bool = False):
    """PyEval resolver for `self.<helper>(..)` inside methods of `ci`: the helper is looked up through the MRO and evaluated in place
    (static methods without a receiver, class methods with the class); properties and the excluded names stay opaque."""
    def resolver(call, env, _ev):
        f = call.func
        if not (isinstance(f, ast.Attribute) and isinstance(f.value, ast.Name) and env.get(f.value.id) == self_value):
            return None
        if f.attr in exclude or (only_private and not (f.attr.startswith('_') and not f.attr.startswith('__'))):
            return None
        hit = py.find_method(ci, f.attr)
        if hit is None:
            return None
        g = hit[1]
        decos = [ast.unparse(d).split('(')[0].split('.')[-1] for d in g.decorator_list]
        if 'property' in decos or any(d.endswith('setter') for d in decos):
            return None
        if 'staticmethod' in decos:
            return g, None
        if 'classmethod' in decos:
            return g, ('name', ci.name)
        return g, self_value
    return resolver


_ENCL_CACHE: dict = {}


def enclosing_def(tree: ast.AST, node: ast.AST):
    """the innermost function definition that contains `node` (a definition contains itself), by structure - load-time normal
    forms move code between functions, so source positions do not say where a node lives; for a node that is not part of `tree`
    (a rule's private copy) the source positions are used.  -> FunctionDef | None"""
    m = _ENCL_CACHE.get(id(tree))
    if m is None:
        m = {}
        stack = [(tree, None)]
        while stack:
            n, f = stack.pop()
            if isinstance(n, ast.FunctionDef):
                f = n
            m[id(n)] = f
            for c in ast.iter_child_nodes(n):
                stack.append((c, f))
        _ENCL_CACHE[id(tree)] = m
        _ENCL_CACHE[('keep', id(tree))] = tree          # keep the tree alive so the id stays unique
    if id(node) in m:
        return m[id(node)]
    best = None
    for n in ast.walk(tree):
        if isinstance(n, ast.FunctionDef) and n.lineno <= getattr(node, 'lineno', -1) <= getattr(n, 'end_lineno', n.lineno):
            best = n
    return best


def helper_objects(py: 'PyRepo', ci):
    """objects a class keeps for its own use: `self.<attr> = K(<args>)` in a method of the hierarchy (K a plain class of the same
    package, not a dataclass) -> {attr: (ClassInfo of K, [argument expressions])}; an attribute bound to different classes is left out"""
    out, clash = {}, set()
    for c in py.mro(ci):
        for g in c.methods.values():
            for n in ast.walk(g):
                if isinstance(n, (ast.Assign, ast.AnnAssign)) and n.value is not None and isinstance(n.value, ast.Call) \
                        and isinstance(n.value.func, ast.Name):
                    tgt = n.targets[0] if isinstance(n, ast.Assign) else n.target
                    if isinstance(tgt, ast.Attribute) and isinstance(tgt.value, ast.Name) and tgt.value.id == 'self':
                        k = py.find_class(n.value.func.id, c.module)
                        if k is None or any(d.startswith('dataclass') for d in k.decorators) or '__init__' not in k.methods:
                            continue
                        if tgt.attr in out and out[tgt.attr][0] is not k:
                            clash.add(tgt.attr)
                        out[tgt.attr] = (k, list(n.value.args))
    return {a: v for a, v in out.items() if a not in clash}


def enclosing_top(tree: ast.AST, node: ast.AST):
    """the OUTERMOST function definition (a module-level function or a method) that contains `node`: nested closures belong to the
    function they are written in, whatever they are called.  -> FunctionDef | None"""
    cur = enclosing_def(tree, node)
    if cur is None:
        return None
    m = _ENCL_CACHE.get(('top', id(tree)))
    if m is None:
        m = {}
        stack = [(tree, None)]
        while stack:
            n, top = stack.pop()
            if isinstance(n, ast.FunctionDef) and top is None:
                top = n
            if isinstance(n, ast.FunctionDef):
                m[id(n)] = top
            for c in ast.iter_child_nodes(n):
                stack.append((c, top))
        _ENCL_CACHE[('top', id(tree))] = m
    return m.get(id(cur), cur)
