"""Which index tuples does a loop nest enumerate?  A small abstract evaluation of iteration structure.

The sequence being iterated is replaced by K distinct abstract elements 0..K-1 (K = 4 covers adjacency, ends and the middle); the
loop nest (for / zip / enumerate / slices / range / itertools.combinations, permutations, product / comparisons between loop
variables or indices) is evaluated over those indices and the set of element tuples reaching a given call is returned.  Nothing of
the repository is executed: this evaluates the checker's own model of the loop headers.  An unsupported construct raises Unsupported."""
from __future__ import annotations

import ast
import itertools

K = 4            # abstract elements; the thorough tier widens it (set_k)


def set_k(k: int) -> None:
    global K
    K = k


class Unsupported(Exception):
    pass


class Elem(int):
    """an element of the abstract sequence (its index)"""


def _seq(e, base: str, env):
    """iterable expression -> list of values (Elem, int, or tuples of them)"""
    txt = ast.unparse(e)
    if txt == base:
        return [Elem(i) for i in range(K)]
    if isinstance(e, ast.Name) and e.id in env and isinstance(env[e.id], list):
        return env[e.id]
    if isinstance(e, ast.Subscript) and isinstance(e.slice, ast.Slice):
        s = _seq(e.value, base, env)
        lo = _int(e.slice.lower, base, env) if e.slice.lower is not None else None
        hi = _int(e.slice.upper, base, env) if e.slice.upper is not None else None
        st = _int(e.slice.step, base, env) if e.slice.step is not None else None
        if st == 0:
            raise Unsupported(txt)
        return s[lo:hi:st]
    if isinstance(e, ast.Call):
        f = e.func
        name = f.id if isinstance(f, ast.Name) else (f.attr if isinstance(f, ast.Attribute) else None)
        if name in ('list', 'tuple', 'iter') and len(e.args) == 1:
            return _seq(e.args[0], base, env)
        if name == 'reversed' and len(e.args) == 1:
            return list(reversed(_seq(e.args[0], base, env)))
        if name == 'enumerate' and len(e.args) >= 1:
            start = _int(e.args[1], base, env) if len(e.args) > 1 else 0
            return [(start + i, x) for i, x in enumerate(_seq(e.args[0], base, env))]
        if name == 'zip':
            return list(zip(*[_seq(a, base, env) for a in e.args]))
        if name == 'range':
            return list(range(*[_int(a, base, env) for a in e.args]))
        if name == 'pairwise' and len(e.args) == 1:
            s_ = _seq(e.args[0], base, env)
            return list(zip(s_, s_[1:]))
        if name in ('combinations', 'permutations') and len(e.args) == 2:
            r = _int(e.args[1], base, env)
            fn = itertools.combinations if name == 'combinations' else itertools.permutations
            return [tuple(t) for t in fn(_seq(e.args[0], base, env), r)]
        if name == 'product':
            rep = [k for k in e.keywords if k.arg == 'repeat']
            seqs = [_seq(a, base, env) for a in e.args]
            if rep:
                seqs = seqs * _int(rep[0].value, base, env)
            return [tuple(t) for t in itertools.product(*seqs)]
    raise Unsupported(f'iterable `{txt}`')


def _int(e, base, env) -> int:
    if isinstance(e, ast.Constant) and isinstance(e.value, int):
        return e.value
    if isinstance(e, ast.Name) and e.id in env and isinstance(env[e.id], int) and not isinstance(env[e.id], Elem):
        return env[e.id]
    if isinstance(e, ast.UnaryOp) and isinstance(e.op, ast.USub):
        return -_int(e.operand, base, env)
    if isinstance(e, ast.BinOp) and isinstance(e.op, (ast.Add, ast.Sub)):
        a, b = _int(e.left, base, env), _int(e.right, base, env)
        return a + b if isinstance(e.op, ast.Add) else a - b
    if isinstance(e, ast.Call) and isinstance(e.func, ast.Name) and e.func.id == 'len' and len(e.args) == 1:
        return len(_seq(e.args[0], base, env))
    raise Unsupported(f'integer `{ast.unparse(e)}`')


def _value(e, base, env):
    """element-valued or int-valued expression"""
    if isinstance(e, ast.Name) and e.id in env:
        return env[e.id]
    if isinstance(e, ast.Attribute):              # x.name of an element is as distinct as the element
        return _value(e.value, base, env)
    if isinstance(e, ast.Subscript) and not isinstance(e.slice, ast.Slice):
        return _seq(e.value, base, env)[_int(e.slice, base, env)]
    try:
        return _int(e, base, env)
    except Unsupported:
        raise Unsupported(f'value `{ast.unparse(e)}`')


def _bind(target, val, env):
    if isinstance(target, ast.Name):
        env[target.id] = val
    elif isinstance(target, (ast.Tuple, ast.List)):
        if not isinstance(val, tuple) or len(val) != len(target.elts):
            raise Unsupported('unpacking')
        for t, v in zip(target.elts, val):
            _bind(t, v, env)
    else:
        raise Unsupported('loop target')


def _test(e, base, env) -> bool:
    if isinstance(e, ast.BoolOp):
        vals = [_test(v, base, env) for v in e.values]
        return all(vals) if isinstance(e.op, ast.And) else any(vals)
    if isinstance(e, ast.UnaryOp) and isinstance(e.op, ast.Not):
        return not _test(e.operand, base, env)
    if isinstance(e, ast.Compare) and len(e.ops) == 1:
        a, b = _value(e.left, base, env), _value(e.comparators[0], base, env)
        op = e.ops[0]
        if isinstance(op, (ast.Eq, ast.Is)):
            return a == b
        if isinstance(op, (ast.NotEq, ast.IsNot)):
            return a != b
        if isinstance(a, Elem) or isinstance(b, Elem):
            raise Unsupported('ordering comparison between elements')
        return {ast.Lt: a < b, ast.LtE: a <= b, ast.Gt: a > b, ast.GtE: a >= b}[type(op)]
    raise Unsupported(f'condition `{ast.unparse(e)}`')


def _bulk_add(st):
    """`X.update(E for .. in .. if ..)` / `X |= {E for ..}` is the loop nest adding E once per iteration -> that loop nest, or None"""
    comp = recv = None
    if isinstance(st, ast.Expr) and isinstance(st.value, ast.Call) and isinstance(st.value.func, ast.Attribute) \
            and st.value.func.attr == 'update' and len(st.value.args) == 1 and not st.value.keywords:
        comp, recv = st.value.args[0], st.value.func.value
    elif isinstance(st, ast.AugAssign) and isinstance(st.op, ast.BitOr):
        comp, recv = st.value, st.target
    if not isinstance(comp, (ast.GeneratorExp, ast.SetComp, ast.ListComp)):
        return None
    body: list = [ast.Expr(value=ast.Call(func=ast.Attribute(value=recv, attr='add', ctx=ast.Load()), args=[comp.elt], keywords=[]))]
    for g in reversed(comp.generators):
        for cond in reversed(g.ifs):
            body = [ast.If(test=cond, body=body, orelse=[])]
        body = [ast.For(target=g.target, iter=g.iter, body=body, orelse=[])]
    node = body[0]
    ast.copy_location(node, st)
    return ast.fix_missing_locations(node)


def tuples_reaching(stmts, base: str, is_sink, sink_args):
    """all tuples of abstract elements with which a sink call is reached.
    is_sink(call) -> bool; sink_args(call) -> list of ast expressions whose values form the tuple"""
    out = []

    def run(body, env) -> bool:
        """-> True if the enclosing iteration was cut short by `continue`"""
        for st in body:
            if isinstance(st, ast.For):
                for v in _seq(st.iter, base, env):
                    e2 = dict(env)
                    _bind(st.target, v, e2)
                    run(st.body, e2)
            elif isinstance(st, ast.If):
                if run(st.body if _test(st.test, base, env) else st.orelse, env):
                    return True
            elif isinstance(st, ast.Assign) and len(st.targets) == 1 and isinstance(st.targets[0], ast.Name):
                try:
                    env[st.targets[0].id] = _value(st.value, base, env)
                except Unsupported:
                    try:
                        env[st.targets[0].id] = _seq(st.value, base, env)
                    except Unsupported:
                        env.pop(st.targets[0].id, None)
            elif isinstance(st, ast.Continue):
                return True
            elif isinstance(st, ast.Pass):
                continue
            elif _bulk_add(st) is not None:
                run([_bulk_add(st)], env)
            else:
                for n in ast.walk(st):
                    if isinstance(n, ast.Call) and is_sink(n):
                        out.append(tuple(_value(a, base, env) for a in sink_args(n)))
                    elif isinstance(n, (ast.ListComp, ast.SetComp, ast.GeneratorExp, ast.While, ast.Break, ast.Return)):
                        raise Unsupported(type(n).__name__)
        return False
    run(list(stmts), {})
    return out
