"""Python side of Engine E: what each interpreter method does to the tracked stack / memory / claims,
which bytes the serializer writes, and which term the conclusion-only interpreter returns.

Per (class, method) and per accepting path (no raise):
  removed   (k, n)      k items popped from the top, then n (symbolic, e.g. len(delta)) more; n is None if none
  binds     {slot/run -> expression it is asserted equal to}
  pushes    [value]     appended to the tracked stack, in order
  mem       [value]     appended to memory
  claims    'shift' | None
  supers    [(method, args)]
  writes    [[byte expressions]]  (serializer)
  ret       value
"""
from __future__ import annotations

import ast

from .pyeval import PyEval, Decline, show
from .pyfacts import PyRepo, ClassInfo
from .report import AnalysisError

SELF = ('param', 'self')
STACK0 = ('attr', SELF, 'stack')
MEM0 = ('attr', SELF, 'memory')
CLAIMS0 = ('attr', SELF, 'claims')
SUPER = ('call', ('name', 'super'), (), ())

INTERP_METHODS = ['evar', 'svar', 'symbol', 'metavar', 'implies', 'app', 'exists', 'esubst', 'ssubst', 'mu',
                  'prop1', 'prop2', 'prop3', 'modus_ponens', 'exists_quantifier', 'exists_generalization',
                  'instantiate', 'instantiate_pattern', 'pop', 'save', 'load',
                  'publish_proof', 'publish_axiom', 'publish_claim']


class StackState:
    """entry stack with `k` items removed from the top and then `n` (symbolic) more"""

    def __init__(self):
        self.k = 0
        self.n = None
        self.pushed: list = []


def canon_stack_expr(v):
    """-> ('stk', k, n) for expressions denoting the entry stack with things removed, else None"""
    if v == STACK0:
        return ('stk', 0, None)
    if v[0] == 'rest' and v[2] == 0:
        base = canon_stack_expr(v[1])
        if base and base[2] is None:
            return ('stk', base[1] + v[3], None)
    if v[0] == 'sub' and v[2][0] == 'slice':
        base = canon_stack_expr(v[1])
        lo, hi = v[2][1], v[2][2]
        if base and base[2] is None and lo is None and hi is not None and hi[0] == 'unop' and hi[1] == 'USub':
            return ('stk', base[1], hi[2])
        if base and base[2] is None and lo is None and hi is not None and hi[0] == 'const' and isinstance(hi[1], int) and hi[1] < 0:
            return ('stk', base[1] - hi[1], None)            # stack[:-k] with a literal k: k more items removed
    return None


def canon_value(v):
    """stack reads -> ('slot', k) (k-th from the top of the entry stack) / ('run', k, n) (the n items below the top k, bottom to top)"""
    if not isinstance(v, tuple) or not v:
        return v
    if v[0] == 'item':
        base = canon_stack_expr(v[1])
        if base and base[2] is None and isinstance(v[2], int) and v[2] < 0:
            return ('slot', base[1] - v[2])
        # a, b = stack[-2:]  : item i of the top-k slice is the slot k - i from the top
        if v[1][0] == 'sub' and v[1][2][0] == 'slice' and v[1][2][2] is None and v[1][2][1] is not None and v[1][2][1][0] == 'const' \
                and isinstance(v[1][2][1][1], int) and v[1][2][1][1] < 0 and isinstance(v[2], int) and 0 <= v[2] < -v[1][2][1][1]:
            base = canon_stack_expr(v[1][1])
            if base and base[2] is None:
                return ('slot', base[1] - v[1][2][1][1] - v[2])
    if v[0] == 'sub':
        base = canon_stack_expr(v[1])
        if base and base[2] is None:
            idx = v[2]
            if idx[0] == 'const' and isinstance(idx[1], int) and idx[1] < 0:
                return ('slot', base[1] - idx[1])
            if idx[0] == 'slice' and idx[2] is None and idx[1] is not None and idx[1][0] == 'unop' and idx[1][1] == 'USub':
                return ('run', base[1], canon_value(idx[1][2]))
    return tuple(canon_value(x) if isinstance(x, tuple) else x for x in v)


class MethodFacts:
    def __init__(self, cls: str, meth: str, params: list[str]):
        self.cls, self.meth, self.params = cls, meth, params
        self.paths: list[dict] = []
        self.raises: list[dict] = []
        self.node = None
        self.decorated = None


def level_facts(py: PyRepo, ci: ClassInfo, meth: str, _depth: int = 0) -> MethodFacts | None:
    if meth not in ci.methods:
        return None
    fn = ci.methods[meth]
    params = [a.arg for a in fn.args.args[1:]]
    mf = MethodFacts(ci.name, meth, params)
    mf.node = fn
    mf.decorated = [ast.unparse(d) for d in fn.decorator_list]
    def resolver(call, env, _ev):
        """`self._helper(..)` of the same class hierarchy (not an interpreter call): evaluated in place, its `for` loops become loop events
        of the caller with the arguments substituted"""
        f = call.func
        if isinstance(f, ast.Attribute) and isinstance(f.value, ast.Name) and f.value.id == 'self' and f.attr not in INTERP_METHODS \
                and not f.attr.startswith('__'):
            hit = py.find_method(ci, f.attr)
            if hit is not None and not any(isinstance(n, ast.While) for n in ast.walk(hit[1])) \
                    and not any('property' in ast.unparse(d) for d in hit[1].decorator_list):
                decos = [ast.unparse(d).split('(')[0].split('.')[-1] for d in hit[1].decorator_list]
                if 'staticmethod' in decos:
                    return hit[1], None
                if 'classmethod' in decos:
                    return hit[1], ('name', ci.name)
                return hit[1], SELF
        # `self.<helper object>.m(..)`: the method of the object the class keeps for itself, evaluated in place on that object
        if isinstance(f, ast.Attribute) and isinstance(f.value, ast.Attribute) and isinstance(f.value.value, ast.Name) \
                and f.value.value.id == 'self' and f.value.attr in helpers:
            k = helpers[f.value.attr][0]
            g = k.methods.get(f.attr)
            if g is not None and not any(isinstance(n, (ast.While, ast.Yield, ast.YieldFrom)) for n in ast.walk(g)) and not g.decorator_list:
                return g, ('attr', SELF, f.value.attr)
        return None

    from .pyfacts import helper_objects
    helpers = helper_objects(py, ci)
    # what the fields of a helper object are: `self.f = <parameter>` in its constructor, the parameter bound at the construction site
    alias = {}
    for attr, (k, cargs) in helpers.items():
        init = k.methods['__init__']
        kparams = [a.arg for a in init.args.args[1:]]
        for n in ast.walk(init):
            if isinstance(n, (ast.Assign, ast.AnnAssign)) and n.value is not None and isinstance(n.value, ast.Name) and n.value.id in kparams:
                tgt = n.targets[0] if isinstance(n, ast.Assign) else n.target
                if isinstance(tgt, ast.Attribute) and isinstance(tgt.value, ast.Name) and tgt.value.id == 'self' \
                        and kparams.index(n.value.id) < len(cargs):
                    try:
                        val = PyEval().expr(cargs[kparams.index(n.value.id)], {'self': SELF}, [])
                    except Decline:
                        continue
                    alias[('attr', ('attr', SELF, attr), tgt.attr)] = val

    def unalias(v):
        if isinstance(v, tuple):
            if v in alias:
                return alias[v]
            return tuple(unalias(x) if isinstance(x, tuple) else x for x in v)
        return v

    ev = PyEval(resolver=resolver)
    try:
        paths = ev.paths(fn)
    except Decline as d:
        raise AnalysisError(f'{ci.name}.{meth}: outside the analysed subset: {d}')
    if alias:
        for p in paths:
            for e in p.events:
                e.value = unalias(e.value)
                if e.kind == 'loop' and e.extra:
                    for bp in e.extra:
                        for e2 in bp.events:
                            e2.value = unalias(e2.value)
            p.conds = [(unalias(c), b) for c, b in p.conds]
            if len(p.end) > 1:
                p.end = (p.end[0], unalias(p.end[1])) + tuple(p.end[2:])
    for p in paths:

        rec = {'conds': [(canon_value(c), b) for c, b in p.conds], 'binds': [], 'pushes': [], 'mem': [], 'claims': None,
               'supers': [], 'writes': [], 'loops': [], 'k': 0, 'n': None, 'subcalls': [], 'other': [],
               'ret': canon_value(p.end[1]) if p.end[0] == 'return' else None, 'end': p.end[0], 'node': p.node, 'events': p.events}
        cur = ('stk', 0, None)
        ok = True
        for e in p.events:
            if e.kind == 'setattr':
                base, attr, val = e.value
                if base == SELF and attr == 'stack':
                    cs = canon_stack_expr(val)
                    if cs is None:
                        if val == ('list', ()):
                            rec['other'].append(('clear-stack',))
                            cur = ('cleared',)
                            continue
                        raise AnalysisError(f'{ci.name}.{meth}: self.stack assigned an expression outside the subset: {show(val)}')
                    if rec['pushes']:
                        raise AnalysisError(f'{ci.name}.{meth}: self.stack re-sliced after a push')
                    cur = cs
                elif base == SELF and attr == 'claims':
                    if val[0] == 'rest' and val[1] == CLAIMS0 and val[2] == 1 and val[3] == 0:
                        rec['claims'] = 'shift'
                    else:
                        rec['other'].append(('set', attr, canon_value(val)))
                else:
                    rec['other'].append(('set', show(base) + '.' + attr, canon_value(val)))
            elif e.kind == 'ecall':
                v = e.value
                f = v[1]
                if f[0] == 'attr' and f[2] == 'append' and len(v[2]) == 1:
                    tgt = f[1]
                    if canon_stack_expr(tgt) is not None or tgt == STACK0:
                        rec['pushes'].append(canon_value(v[2][0]))
                        continue
                    if tgt == MEM0:
                        rec['mem'].append(canon_value(v[2][0]))
                        continue
                    rec['other'].append(('append', show(tgt), canon_value(v[2][0])))
                    continue
                if f[0] == 'attr' and f[2] == 'pop' and not v[2] and (f[1] == STACK0 or canon_stack_expr(f[1]) is not None):
                    cs = canon_stack_expr(f[1])
                    if cs[2] is not None or rec['pushes']:
                        raise AnalysisError(f'{ci.name}.{meth}: stack.pop() after a symbolic slice or a push')
                    cur = ('stk', cs[1] + 1, None)
                    continue
                if f[0] == 'attr' and f[1] == SUPER:
                    rec['supers'].append((f[2], tuple(canon_value(a) for a in v[2]), v[3]))
                    continue
                if f[0] == 'attr' and f[1] == ('attr', SELF, 'sub_interpreter'):
                    rec['subcalls'].append((f[2], tuple(canon_value(a) for a in v[2]), v[3]))
                    continue
                if f == ('attr', ('attr', SELF, 'out'), 'write') and len(v[2]) == 1:
                    rec['writes'].append(canon_value(v[2][0]))
                    continue
                if f[0] == 'attr' and f[1] == SELF:
                    rec['other'].append(('selfcall', f[2], tuple(canon_value(a) for a in v[2])))
                    continue
            elif e.kind == 'loop':
                rec['loops'].append((e.value, e.extra))
        if cur[0] == 'stk':
            rec['k'], rec['n'] = cur[1], (canon_value(cur[2]) if cur[2] is not None else None)
        else:
            rec['k'], rec['n'] = 'cleared', None
        # asserted equalities bind slots to parameters
        for c, b in rec['conds']:
            if b is True and c[0] == 'cmp' and c[1] == '==':
                rec['binds'].append((c[2], c[3]))
        (mf.paths if p.end[0] != 'raise' else mf.raises).append(rec)
    if _depth < 2:
        _inline_helpers(py, ci, mf, _depth)
    return mf


def _subst_params(v, mapping):
    if isinstance(v, tuple):
        if v in mapping:
            return mapping[v]
        return tuple(_subst_params(x, mapping) if isinstance(x, tuple) else x for x in v)
    return v


def _inline_helpers(py: PyRepo, ci: ClassInfo, mf: MethodFacts, depth: int):
    """`self._emit(a, b)` style helpers of the same class hierarchy: their writes / pushes count as the caller's (one level)"""
    for rec in mf.paths:
        for o in list(rec['other']):
            if o[0] != 'selfcall' or o[1] in INTERP_METHODS:
                continue
            hit = py.find_method(ci, o[1])
            if hit is None:
                continue
            owner, hfn = hit
            # a helper that touches the tracked state (stack / memory / claims / output) must be modelled, or the caller's effect
            # is unknown - passing over it would report "pops nothing, writes nothing" for code that does
            touches = any(isinstance(n, ast.Attribute) and isinstance(n.value, ast.Name) and n.value.id == 'self'
                          and n.attr in ('stack', 'memory', 'claims', 'out') for n in ast.walk(hfn))

            def give_up(why):
                if touches:
                    raise AnalysisError(f'{ci.name}.{mf.meth}: the helper {o[1]}() works on the tracked state in a way outside the analysed '
                                        f'subset ({why}); its effect on the stack / output cannot be decided')
            if any(isinstance(n, (ast.For, ast.While)) for n in ast.walk(hfn)):
                give_up('a loop')
                continue
            try:
                hf = level_facts(py, owner, o[1], depth + 1)
            except AnalysisError as e:
                give_up(str(e))
                continue
            if hf is None or len(hf.paths) != 1:
                give_up('several paths')
                continue
            h = hf.paths[0]
            hparams = [a.arg for a in hfn.args.args[1:]]
            mapping = {('param', pn): av for pn, av in zip(hparams, o[2])}
            if hfn.args.vararg is not None:
                mapping[('star', ('param', '*' + hfn.args.vararg.arg))] = ('star', ('tuple', tuple(o[2][len(hparams):])))
                mapping[('param', '*' + hfn.args.vararg.arg)] = ('tuple', tuple(o[2][len(hparams):]))
            for w in h['writes']:
                w2 = _subst_params(w, mapping)
                # bytes([*args]) with a literal tuple: flatten
                el = bytes_elts(w2)
                if el is not None:
                    flat = []
                    for e in el:
                        if e[0] == 'star' and e[1][0] in ('tuple', 'list'):
                            flat.extend(e[1][1])
                        else:
                            flat.append(e)
                    w2 = ('call', ('name', 'bytes'), (('list', tuple(flat)),), ())
                rec['writes'].append(w2)
            rec['pushes'] += [_subst_params(x, mapping) for x in h['pushes']]
            rec['mem'] += [_subst_params(x, mapping) for x in h['mem']]


def chain(py: PyRepo, cls_name: str) -> list[ClassInfo]:
    return py.mro(py.cls(cls_name))


# ----------------------------------------------------------------------------
# serializer byte lists

def bytes_elts(v):
    """`bytes([a, b, *c])` -> list of element expressions, else None"""
    if v[0] == 'call' and v[1] in (('name', 'bytes'), ('name', 'pack')) and len(v[2]) == 1:
        a = v[2][0]
        # bytes([..]) / bytes((..)) / pack(iter((..))): `pack` is the byte-rendering helper of instruction.py (whether it bounds its
        # input like bytes() does is decided by C03's bounded-write rule, not here)
        while a[0] == 'call' and a[1] in (('name', 'iter'), ('name', 'list'), ('name', 'tuple')) and len(a[2]) == 1:
            a = a[2][0]
        if a[0] in ('list', 'tuple'):
            return list(a[1])
    return None


def opcode_of(elt):
    if elt[0] == 'attr' and elt[1] == ('name', 'Instruction'):
        return elt[2]
    return None
