"""Normal form of "a map built from other maps" on a PyEval path, whatever the spelling:

    {k: f(v) for k, v in S.items() if c}          a dict comprehension
    {**A, **B}   A | B   frozendict(..)            concatenations (later parts override earlier ones on equal keys)
    acc = {}; for k, v in S.items(): [if c:] acc[k] = f(v)      an accumulation loop (also with `continue` guards)

-> list of Part(source, alts) in insertion order; every alternative is (conds, key, value) with the loop / comprehension variables
written as ('item', ('elem', source), i) (or ('elem', source) for a single variable) and the conditions as (atom, polarity)."""
from __future__ import annotations

from dataclasses import dataclass, field

from .pyeval import PyEval


@dataclass
class Part:
    source: tuple                      # the iterated value, e.g. ('call', ('attr', X, 'items'), (), ())
    alts: list = field(default_factory=list)          # [(conds, key, value)] - the entries this part may add
    skips: list = field(default_factory=list)         # [conds] - the ways an element is left out
    kind: str = 'comp'
    raw: object = None                 # the comprehension value itself (a later part may test membership in it)


def strip_wrappers(v):
    while v[0] == 'call' and v[1] in (('name', 'frozendict'), ('name', 'dict')) and len(v[2]) == 1 and not v[3]:
        v = v[2][0]
    return v


def _subst(v, table):
    if not isinstance(v, tuple) or not v:
        return v
    if v in table:
        return table[v]
    return tuple(_subst(x, table) if isinstance(x, tuple) else x for x in v)


def _flat_and(c):
    if c[0] == 'boolop' and c[1] == 'and':
        out = []
        for x in c[2]:
            out.extend(_flat_and(x))
        return out
    if c[0] == 'not' and c[1][0] == 'boolop' and c[1][1] == 'or':
        out = []                                   # not (a or b)  =  not a and not b
        for x in c[1][2]:
            out.extend(_flat_and(('not', x)))
        return out
    if c[0] == 'not' and c[1][0] == 'not':
        return _flat_and(c[1][1])
    return [c]


def _comp_part(part):
    _c, kind, elt, gens = part
    if kind != 'dictcomp' or len(gens) != 1 or elt[0] != 'pair':
        return None
    tgt, it, ifs = gens[0]
    names = [x.strip() for x in tgt.strip('()').split(',')]
    elem = ('elem', it)
    table = {('bound', names[0]): elem} if len(names) == 1 else {('bound', n): ('item', elem, i) for i, n in enumerate(names)}
    conds = []
    for c in ifs:
        for x in _flat_and(c):
            atom, pol = PyEval.norm_test(_subst(x, table))
            conds.append((atom, pol))
    return Part(it, [(conds, _subst(elt[1], table), _subst(elt[2], table))], [], 'comp', part)


def map_parts(path, m):
    """parts of the map value `m` on `path`, or None if it is not built in one of the known ways"""
    m = strip_wrappers(m)
    if m[0] == 'dict' and m[1]:
        out = []
        for k, val in m[1]:
            if k != ('const', '**'):
                return None
            sub = map_parts(path, val)
            if sub is None:
                return None
            out.extend(sub)
        return out
    if m[0] == 'binop' and m[1] == 'BitOr':
        a, b = map_parts(path, m[2]), map_parts(path, m[3])
        return None if a is None or b is None else a + b
    if m[0] == 'comp':
        p = _comp_part(m)
        return None if p is None else [p]
    if m == ('dict', ()) or (m[0] == 'call' and m[1] in (('name', 'dict'),) and not m[2] and not m[3]):
        # an accumulator filled by loops on this path
        out = []
        for e in path.events:
            if e.kind == 'setitem' and e.value[0] == m:
                return None                    # an entry stored outside a loop: not a pure concatenation of maps
            if e.kind != 'loop' or e.value[0] != 'for':
                continue
            touches = [sp for sp in e.extra if any(x.kind == 'setitem' and x.value[0] == m for x in sp.events)]
            if not touches:
                continue
            part = Part(e.value[2], [], [], 'loop')
            for sp in e.extra:
                sets = [x for x in sp.events if x.kind == 'setitem' and x.value[0] == m]
                if sp.end[0] not in ('fall', 'continue'):
                    return None                # break / return / raise inside the filling loop
                if len(sets) > 1 or any(x.kind == 'loop' for x in sp.events):
                    return None
                if sets:
                    part.alts.append((list(sp.conds), sets[0].value[1], sets[0].value[2]))
                else:
                    part.skips.append(list(sp.conds))
            out.append(part)
        return out
    return None
