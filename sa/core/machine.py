"""Rust side of Engine E: the opcode arms of `execute_instructions` (and `verify`) in canonical form.

Every path of `execute_instructions` is classified by the opcode it handles; its
events become an ordered list of machine steps (operand bytes, pops, pushes, ...),
its decisions become canonical guards, its values become canonical terms:

  ('byte', k)                 k-th operand byte read in this arm (1-based)
  ('list', k)                 k-th operand list read with read_u8_vec
  ('pop', k)                  k-th popped Term;  ('payload', k, 'Pattern'|'Proved') its pattern
  ('top',)                    stack.last();      ('mem', i) memory[i];   ('claim',) claims.pop()
  ('P', Ctor, f1, f2, ...)    pattern constructor in declared field order
  ('empty',)                  a fresh empty vector
"""
from __future__ import annotations

from dataclasses import dataclass, field

from . import mir, mireval
from .mireval import show
from .report import AnalysisError
from .rustfacts import Rust

BUFFER_ITER = ('iter', ('param', 'buffer'))
STACK = ('param', 'stack')
MEMORY = ('param', 'memory')
CLAIMS = ('param', 'claims')
TARGETS = {STACK: 'stack', MEMORY: 'memory', CLAIMS: 'claims'}


@dataclass
class ArmPath:
    opcode: str
    conds: list = field(default_factory=list)       # canonical (atom, outcome)
    steps: list = field(default_factory=list)
    end: str = 'next'                               # next | diverge | loop
    why: str = ''
    raw: object = None
    unchecked: list = field(default_factory=list)   # reads whose Option result is used without a diverging None branch


class Normalizer:
    """per-path renaming of impure call results into step names"""

    def __init__(self):
        self.names: dict = {}
        self.nbyte = 0
        self.npop = 0
        self.nlist = 0

    def norm(self, v):
        if not isinstance(v, tuple) or not v:
            return v
        if v in self.names:
            return self.names[v]
        k = v[0]
        if k == 'field':
            base = self.norm(v[1])
            if v[2] == 'Some' and base[0] in ('byteopt', 'popopt', 'topopt', 'claimopt'):
                return {'byteopt': ('byte', base[1]), 'popopt': ('pop', base[1]), 'topopt': ('top',),
                        'claimopt': ('claim',)}[base[0]]
            if base[0] in ('pop',) and v[2] in ('Pattern', 'Proved'):
                return ('payload', base[1], v[2])
            if base[0] == 'top' and v[2] in ('Pattern', 'Proved'):
                return ('toppayload', v[2])
            if base[0] == 'mem' and v[2] in ('Pattern', 'Proved'):
                return ('mempayload', base[1], v[2])
            if base[0] == 'P' and v[2] == base[1]:
                return base[2 + v[3]]
            if base[0] == 'tuple' and v[2] is None and isinstance(v[3], int) and v[3] < len(base[1]):
                return base[1][v[3]]                 # component of a pair of collected vectors (`unzip`)
            if v[2] in mir.ENUM_FIELDS.get('Pattern', {}):
                return ('fld', base, v[2], mir.field_name('Pattern', v[2], v[3]))
            return ('field', base, v[2], v[3])
        if k == 'agg':
            name = v[1]
            if name.startswith('Pattern::'):
                ctor = name.split('::')[1]
                order = mir.ENUM_FIELDS['Pattern'].get(ctor)
                if order is None:
                    raise AnalysisError(f'unknown Pattern constructor {name}')
                given = {str(n): self.norm(x) for n, x in v[2]}
                if set(given) != set(order):
                    raise AnalysisError(f'{name}: fields {sorted(given)} differ from declaration {order}')
                return ('P', ctor) + tuple(given[f] for f in order)
            return ('agg', name, tuple((n, self.norm(x)) for n, x in v[2]))
        if k == 'vec':
            return ('vecid', v[2])
        if k == 'call':
            if v[1] == 'Index::index' and len(v[2]) == 2 and v[2][0] == MEMORY:
                return ('mem', self.norm(v[2][1]))
            return (k, v[1], tuple(self.norm(a) for a in v[2])) + tuple(v[3:])
        if k == 'mut':
            return ('mut', v[1], v[2], tuple(self.norm(a) for a in v[3]))
        return tuple(self.norm(x) if isinstance(x, tuple) else x for x in v)


EVAL = None      # set by rust_arms: the evaluator, needed to look into closures


def _is_next_on_buffer(e) -> bool:
    return e.kind == 'call' and e.name == 'Iterator::next' and e.args and e.args[0] == BUFFER_ITER


def _range_of(e):
    if e.kind == 'call' and e.name == 'Iterator::next' and e.args and e.args[0][0] == 'iter':
        inner = e.args[0][1]
        if inner[0] == 'agg' and 'Range' in inner[1]:
            d = dict(inner[2])
            return d.get('start'), d.get('end')
    return None


def build_steps(events, nz: Normalizer, loop_bodies: dict, pending_expect: dict):
    """events -> steps.  pending_expect collects Option values that were produced by a read; a later guard discharges them."""
    steps = []
    for e in events:
        if e.extra == 'pure':
            continue
        if e.kind == 'guard':
            atom, outcome = e.args
            if atom[0] == 'variant' and atom[1] in pending_expect and outcome in ('Some', 'Ok'):
                idx = pending_expect.pop(atom[1])
                st = steps[idx]
                steps[idx] = st[:-1] + (True,)
                continue
            a = nz.norm(atom)
            if a[0] == 'variant' and a[1] == ('topopt', 0) and outcome == 'Some':
                steps.append(('peek',))
                continue
            # kind guard of a pop (from pop_stack_pattern / pop_stack_proved)
            if a[0] == 'variant' and isinstance(a[1], tuple) and a[1][0] == 'pop' and outcome in ('Pattern', 'Proved'):
                for i, st in enumerate(steps):
                    if st[0] == 'pop' and st[1] == a[1][1]:
                        steps[i] = ('pop', st[1], outcome, st[3])
                continue
            steps.append(('guard', a, outcome))
            continue
        if e.kind == 'store':
            steps.append(('store', nz.norm(e.args[0]), nz.norm(e.args[1])))
            continue
        if e.kind != 'call':
            continue
        if _is_next_on_buffer(e):
            nz.nbyte += 1
            nz.names[e.result] = ('byteopt', nz.nbyte)
            pending_expect[e.result] = len(steps)
            steps.append(('byte', nz.nbyte, False))
            continue
        if e.name == 'Iterator::take' and e.args and e.args[0] == BUFFER_ITER:
            nz.names[e.result] = ('take', nz.norm(e.args[1]))
            continue
        if e.name in ('Iterator::copied', 'Iterator::cloned') and e.args and nz.norm(e.args[0])[0] == 'take':
            nz.names[e.result] = nz.norm(e.args[0])
            continue
        if e.name == 'Iterator::collect' and e.args and nz.norm(e.args[0])[0] == 'take':
            # `iterator.take(n).copied().collect()`: a length-prefixed list read whose operands stop silently at end of input
            cnt = nz.norm(e.args[0])[1]
            while isinstance(cnt, tuple) and cnt and cnt[0] in ('cast', 'as') and len(cnt) >= 2 and isinstance(cnt[-1], tuple):
                cnt = cnt[-1]
            if isinstance(cnt, tuple) and cnt[0] == 'byte' and steps and steps[-1][0] == 'byte' and steps[-1][1] == cnt[1] \
                    and cnt[1] == nz.nbyte:
                steps.pop()                      # the length byte belongs to the list operand
                nz.nbyte -= 1
                pending_expect = {k: v for k, v in pending_expect.items() if v < len(steps)}
            nz.nlist += 1
            nz.names[e.result] = ('list', nz.nlist)
            steps.append(('list', nz.nlist))
            steps.append(('silent-adapter', 'Iterator::take'))
            continue
        if e.name == 'Iterator::for_each' and len(e.args) == 2 and nz.norm(e.args[0])[0] == 'take' \
                and e.args[1][0] == 'closure' and EVAL is not None:
            # `iterator.take(n).for_each(|b| ..)`: an operand loop whose byte read stops silently at end of input
            cnt = nz.norm(e.args[0])[1]
            cps = [cp for cp in EVAL.closure_paths(e.args[1]) if not (cp.end == 'diverge' and cp.why == 'unreachable')]
            bodies = []
            for cp in cps:
                if cp.end != 'return':
                    continue
                bnz = Normalizer()
                bnz.names = dict(nz.names)
                bnz.nbyte, bnz.npop, bnz.nlist = nz.nbyte, nz.npop, nz.nlist
                bnz.nbyte += 1
                bnz.names[('param', 'arg1')] = ('byte', bnz.nbyte)
                bsteps = [('byte', bnz.nbyte, False)] + build_steps(cp.events, bnz, {}, {})
                bodies.append({'steps': bsteps, 'first_byte': nz.nbyte + 1, 'first_pop': nz.npop + 1, 'conds': []})
            steps.append(('loop', (('int', 0), cnt), bodies))
            steps.append(('silent-adapter', 'Iterator::take'))
            continue
        if e.name == 'Iterator::map' and len(e.args) == 2 and e.args[1][0] == 'closure' and e.args[0][0] == 'agg' and 'Range' in e.args[0][1]:
            d_ = dict(e.args[0][2])
            nz.names[e.result] = ('maprange', d_.get('start'), d_.get('end'), e.args[1])
            continue
        if e.name in ('Iterator::collect', 'Iterator::unzip') and e.args and isinstance(nz.names.get(e.args[0]), tuple) \
                and nz.names[e.args[0]][0] == 'maprange' and EVAL is not None:
            # `(a..b).map(|_| body).collect()` / `.unzip()`: the operand loop `for _ in a..b { v.push(body) }` (two vectors for unzip)
            _mr, start, end, clo = nz.names[e.args[0]]
            k_ = 2 if e.name == 'Iterator::unzip' else 1
            vids = [('vecid', ('collect', e.block, i_)) for i_ in range(k_)]
            bodies = []
            for cp in EVAL.closure_paths(clo):
                if cp.end != 'return':
                    continue
                bnz = Normalizer()
                bnz.names = dict(nz.names)
                bnz.nbyte, bnz.npop, bnz.nlist = nz.nbyte, nz.npop, nz.nlist
                pend_: dict = {}
                bsteps = build_steps(cp.events, bnz, {}, pend_)
                ret = cp.ret
                if k_ == 2:
                    if not (isinstance(ret, tuple) and ret and ret[0] == 'tuple' and len(ret[1]) == 2):
                        raise AnalysisError('unzip over a closure that does not return a pair')
                    comps = list(ret[1])
                else:
                    comps = [ret]
                for vid, cv in zip(vids, comps):
                    bsteps.append(('vecpush', vid, bnz.norm(cv)))
                bodies.append({'steps': bsteps, 'first_byte': nz.nbyte + 1, 'first_pop': nz.npop + 1, 'conds': []})
            steps.append(('loop', (nz.norm(start), nz.norm(end)), bodies))
            nz.names[e.result] = vids[0] if k_ == 1 else ('tuple', tuple(vids))
            continue
        rng = _range_of(e)
        if rng is not None:
            body = loop_bodies.get(e.block)
            steps.append(('loop', (nz.norm(rng[0]), nz.norm(rng[1])), body))
            continue
        if e.name == 'Vec::pop' and e.args and e.args[0] == STACK:
            nz.npop += 1
            nz.names[e.result] = ('popopt', nz.npop)
            pending_expect[e.result] = len(steps)
            steps.append(('pop', nz.npop, 'any', False))
            continue
        if e.name == 'Vec::pop' and e.args and e.args[0] == CLAIMS:
            nz.names[e.result] = ('claimopt', 0)
            pending_expect[e.result] = len(steps)
            steps.append(('claimpop', False))
            continue
        if e.name == 'read_u8_vec':
            nz.nlist += 1
            nz.names[e.result] = ('list', nz.nlist)
            steps.append(('list', nz.nlist))
            continue
        if e.name == 'Vec::push' and e.args:
            tgt = e.args[0]
            val = nz.norm(e.args[1])
            if tgt in TARGETS:
                wrapper = None
                if val[0] == 'agg' and val[1] in ('Term::Pattern', 'Term::Proved', 'Entry::Pattern', 'Entry::Proved'):
                    wrapper, val = val[1], val[2][0][1]
                steps.append(('push', TARGETS[tgt], wrapper, val))
            else:
                steps.append(('vecpush', nz.norm(tgt), val))
            continue
        if e.name == 'Vec::clear' and e.args and e.args[0] in TARGETS:
            steps.append(('clear', TARGETS[e.args[0]]))
            continue
        if e.extra == 'diverges':
            steps.append(('panic', e.name))
            continue
        steps.append(('call', e.name, tuple(nz.norm(a) for a in e.args)))
        if e.result is not None:
            nz.names.setdefault(e.result, ('ret', e.name, tuple(nz.norm(a) for a in e.args), e.result[3] if len(e.result) > 3 else 0))
    return steps


def slice_last_fix(nz: Normalizer, events):
    """`stack.last()` is a pure std call in the evaluator; name its Option so `.expect` discharges it."""
    for e in events:
        if e.kind == 'guard':
            atom = e.args[0]
            if atom[0] == 'variant' and atom[1][0] == 'call' and atom[1][1] == 'slice::last' and atom[1][2] == (STACK,):
                nz.names[atom[1]] = ('topopt', 0)


def rust_arms(r: Rust) -> dict[str, list[ArmPath]]:
    global EVAL
    EVAL = r.ev
    paths = r.paths('execute_instructions')
    arms: dict[str, list[ArmPath]] = {}
    exit_paths = []
    # locate loop head
    head_block = None
    for p in paths:
        for e in p.events:
            if _is_next_on_buffer(e):
                head_block = e.block
                break
        if head_block:
            break
    if head_block is None:
        raise AnalysisError('execute_instructions: no read of the instruction buffer found')
    classified = []
    for p in paths:
        head = None
        for e in p.events:
            if _is_next_on_buffer(e):
                head = e
                break
        if head is None:
            raise AnalysisError('execute_instructions: path without the loop-head read')
        opcode = None
        rest = []
        is_exit = False
        for a, o in p.conds:
            if a[0] == 'variant' and a[1] == head.result:
                if o != 'Some':
                    is_exit = True
                continue
            if a[0] == 'variant' and a[2] == 'Instruction' and a[1][0] == 'call' and a[1][1] == 'Instruction::from':
                opcode = o if not isinstance(o, tuple) else '_'
                continue
            rest.append((a, o))
        if is_exit:
            exit_paths.append(p)
            continue
        if opcode is None:
            raise AnalysisError('execute_instructions: path that does not dispatch on Instruction::from')
        classified.append((opcode, head, rest, p))
    # inner loop bodies, per opcode and header block
    bodies: dict[tuple, list] = {}
    for opcode, head, rest, p in classified:
        if isinstance(p.end, tuple) and p.end[0] == 'back' and p.end[1] != head_block:
            bodies.setdefault((opcode, p.end[1]), []).append((head, rest, p))
    for opcode, head, rest, p in classified:
        if isinstance(p.end, tuple) and p.end[0] == 'back' and p.end[1] != head_block:
            continue
        if p.end == 'diverge' and p.why == 'unreachable':
            continue        # the compiler's exhaustive-match fallthrough: not a feasible path
        nz = Normalizer()
        nz.names[head.result] = ('headopt', 0)
        slice_last_fix(nz, p.events)
        evs = p.events[p.events.index(head) + 1:]
        loop_bodies = {}
        for (oc, hb), lst in bodies.items():
            if oc != opcode or hb not in p.blocks:
                continue
            blist = []
            for bhead, brest, bp in lst:
                # events of the body = those after the loop header's own event
                hidx = None
                for i, e in enumerate(bp.events):
                    if e.block == hb and _range_of(e) is not None:
                        hidx = i
                if hidx is None:
                    raise AnalysisError(f'{opcode}: inner loop without a range header')
                bnz = Normalizer()
                bnz.names = dict()
                bnz.names[bhead.result] = ('headopt', 0)
                # replay the prefix so that names of earlier reads are known inside the body
                pend: dict = {}
                build_steps(bp.events[bp.events.index(bhead) + 1:hidx], bnz, {}, pend)
                pre_b, pre_p = bnz.nbyte, bnz.npop
                bsteps = build_steps(bp.events[hidx + 1:], bnz, {}, pend)
                blist.append({'steps': bsteps, 'first_byte': pre_b + 1, 'first_pop': pre_p + 1,
                              'conds': [(bnz.norm(a), o) for a, o in brest if not _is_range_cond(a)]})
            loop_bodies[hb] = blist
        pending: dict = {}
        steps = build_steps(evs, nz, loop_bodies, pending)
        conds = [(nz.norm(a), o) for a, o in rest if not _is_range_cond(a)]
        end = 'next' if (isinstance(p.end, tuple) and p.end[0] == 'back') else \
            ('diverge' if p.end == 'diverge' else str(p.end))
        ap = ArmPath(opcode, conds, steps, end, p.why, p)
        ap.unchecked = [s for s in steps if (s[0] == 'byte' and s[2] is False) or (s[0] == 'pop' and s[3] is False)
                        or (s[0] == 'claimpop' and s[1] is False)]
        arms.setdefault(opcode, []).append(ap)
    # explicit `match read { Some(x) => .., None => panic!() }` is the same idiom as `.expect()`
    for op, aps in arms.items():
        for ap in aps:
            keep = []
            for a, o in ap.conds:
                if a[0] == 'variant' and isinstance(a[1], tuple) and a[1] and a[1][0] in ('byteopt', 'popopt', 'claimopt', 'topopt') \
                        and o == 'Some':
                    sib = [q for q in aps if any(a2 == a and o2 != 'Some' for a2, o2 in q.conds)]
                    if sib and all(q.end == 'diverge' for q in sib):
                        kind = {'byteopt': 'byte', 'popopt': 'pop', 'claimopt': 'claimpop', 'topopt': 'peek'}[a[1][0]]
                        for i, st in enumerate(ap.steps):
                            if st[0] == kind and (kind in ('claimpop', 'peek') or st[1] == a[1][1]):
                                ap.steps[i] = st[:-1] + (True,) if kind != 'peek' else st
                        continue
                keep.append((a, o))
            ap.conds = keep
            ap.unchecked = [st for st in ap.steps if (st[0] == 'byte' and st[2] is False) or (st[0] == 'pop' and st[3] is False)
                            or (st[0] == 'claimpop' and st[1] is False)]
    if not exit_paths or any(p.end != 'return' for p in exit_paths):
        raise AnalysisError('execute_instructions: end of input does not lead to return')
    return arms


def _is_range_cond(a) -> bool:
    return a[0] == 'variant' and a[1][0] == 'call' and a[1][1] == 'Iterator::next' and a[1][2] and \
        a[1][2][0][0] == 'iter' and a[1][2][0][1][0] == 'agg' and 'Range' in a[1][2][0][1][1]


def show_step(s) -> str:
    k = s[0]
    if k == 'byte':
        return f'byte#{s[1]}' + ('' if s[2] else ' (UNCHECKED)')
    if k == 'pop':
        return f'pop#{s[1]}:{s[2]}' + ('' if s[3] else ' (UNCHECKED)')
    if k == 'list':
        return f'list#{s[1]}'
    if k == 'push':
        return f'push {s[1]} {s[2] or ""}({show_val(s[3])})'
    if k == 'guard':
        return f'guard {show_val(s[1])} = {s[2]}'
    if k == 'loop':
        bodies = s[2] or []
        return f'loop {show_val(s[1][0])}..{show_val(s[1][1])} {{' + ' | '.join('; '.join(show_step(x) for x in b['steps']) for b in bodies) + '}'
    if k == 'call':
        return f'{s[1]}({", ".join(show_val(a) for a in s[2])})'
    if k == 'vecpush':
        return f'{show_val(s[1])}.push({show_val(s[2])})'
    if k == 'claimpop':
        return 'claims.pop' + ('' if s[1] else ' (UNCHECKED)')
    if k == 'store':
        return f'*{show_val(s[1])} = {show_val(s[2])}'
    return str(s)


def show_val(v) -> str:
    if not isinstance(v, tuple) or not v:
        return str(v)
    k = v[0]
    if k == 'byte':
        return f'byte#{v[1]}'
    if k == 'pop':
        return f'pop#{v[1]}'
    if k == 'payload':
        return f'pop#{v[1]}.{v[2]}'
    if k == 'list':
        return f'list#{v[1]}'
    if k == 'top':
        return 'top'
    if k == 'toppayload':
        return f'top.{v[1]}'
    if k == 'mem':
        return f'memory[{show_val(v[1])}]'
    if k == 'mempayload':
        return f'memory[{show_val(v[1])}].{v[2]}'
    if k == 'claim':
        return 'claim'
    if k == 'P':
        return f'{v[1]}({", ".join(show_val(x) for x in v[2:])})'
    if k == 'fld':
        return f'{show_val(v[1])}.{v[2]}.{v[3]}'
    if k == 'vecid':
        return f'vec@{v[1]}'
    if k == 'int':
        return str(v[1])
    if k == 'variant':
        return f'variant({show_val(v[1])})'
    if k == 'eq':
        return f'{show_val(v[1])} == {show_val(v[2])}'
    if k == 'call':
        return f'{v[1]}({", ".join(show_val(a) for a in v[2])})'
    if k == 'mut':
        return f'{v[1]}!({", ".join(show_val(a) for a in v[3])})'
    if k == 'ret':
        return f'{v[1]}(..)'
    return show(v)


# ----------------------------------------------------------------------------
# case form (comparable with spec/machine.py)

def _canon_atom(a):
    if isinstance(a, tuple) and a and a[0] == 'eq':
        x, y = sorted([a[1], a[2]], key=repr)
        return ('eq', x, y)
    if isinstance(a, tuple) and a and a[0] == 'variant' and len(a) == 3:
        return ('variant', a[1])
    return a


def canon_conds(conds):
    return {(_canon_atom(a), o) for a, o in conds}


def to_case(ap: ArmPath) -> dict:
    """accepting ArmPath -> {'reads', 'conds', 'effects', 'extra'}"""
    collects: dict = {}
    reads = []

    def walk_reads(steps, out):
        for s in steps:
            if s[0] == 'byte':
                out.append(('byte', s[1]))
            elif s[0] == 'list':
                out.append(('list', s[1]))
            elif s[0] == 'pop':
                out.append(('pop', s[1], s[2]))
            elif s[0] == 'peek':
                out.append(('peek',))
            elif s[0] == 'claimpop':
                out.append(('claimpop',))
            elif s[0] == 'loop':
                bodies = s[2] or []
                if len(bodies) != 1:
                    raise AnalysisError(f'{ap.opcode}: inner loop with {len(bodies)} body paths')
                inner: list = []
                walk_reads(bodies[0]['steps'], inner)
                for b in bodies[0]['steps']:
                    if b[0] == 'vecpush':
                        collects.setdefault(b[1], []).append(b[2])
                    elif b[0] in ('push', 'call', 'store'):
                        raise AnalysisError(f'{ap.opcode}: effect {show_step(b)} inside an operand loop')
                out.append(('loop', s[1], inner))

    walk_reads(ap.steps, reads)
    pushed_outside = {s[1] for s in ap.steps if s[0] == 'vecpush'}

    def fix(v):
        if not isinstance(v, tuple) or not v:
            return v
        if v[0] == 'vecid':
            if v in collects:
                if len(collects[v]) != 1:
                    raise AnalysisError(f'{ap.opcode}: vector filled from {len(collects[v])} sites')
                return ('collect', fix(collects[v][0]))
            if v in pushed_outside:
                return v
            return ('empty',)
        if v[0] == 'mut' and v[1] == 'instantiate_in_place' and v[2] == 0:
            return ('instantiate',) + tuple(fix(a) for a in v[3])
        return tuple(fix(x) if isinstance(x, tuple) else x for x in v)

    effects = []
    extra = []
    conds = set(canon_conds([(fix(a), o) for a, o in ap.conds]))
    for s in ap.steps:
        if s[0] == 'push':
            effects.append(('push', s[1], s[2], fix(s[3])))
        elif s[0] == 'guard':
            conds.add((_canon_atom(fix(s[1])), s[2]))
        elif s[0] == 'call':
            if s[1] == 'instantiate_in_place':
                continue
            extra.append(show_step(s))
        elif s[0] in ('store', 'clear'):
            extra.append(show_step(s))
    silent = [s[1] for s in ap.steps if s[0] == 'silent-adapter']
    return {'reads': reads, 'conds': conds, 'effects': effects, 'extra': extra, 'silent': silent}


def split_reads(reads):
    """operand bytes, stack pops and the rest are independent input streams: only the order inside a stream is behaviour"""
    def proj(rs, kinds):
        out = []
        for r in rs:
            if r[0] == 'loop':
                inner = proj(r[2], kinds)
                if inner:
                    out.append(('loop', r[1], tuple(inner)))
            elif r[0] in kinds:
                out.append(r)
        return tuple(out)
    return {'bytes': proj(reads, ('byte', 'list')), 'pops': proj(reads, ('pop',)), 'other': proj(reads, ('peek', 'claimpop'))}


def same_case(a, b) -> bool:
    return split_reads(a['reads']) == split_reads(b['reads']) and a['conds'] == b['conds'] and a['effects'] == b['effects']


def show_case(c) -> str:
    def rd(r):
        if r[0] == 'loop':
            return f'loop {show_val(r[1][0])}..{show_val(r[1][1])} {{{", ".join(rd(x) for x in r[2])}}}'
        if r[0] == 'pop':
            return f'pop#{r[1]}:{r[2]}'
        return show_val(r) if r[0] in ('byte', 'list') else r[0]
    conds = ' & '.join(sorted(f'{show_val(a)}={o}' for a, o in c['conds']))
    eff = '; '.join(f'push {e[1]} {e[2] or ""}({show_val(e[3])})' for e in c['effects'])
    return f'reads [{", ".join(rd(r) for r in c["reads"])}] when [{conds}] then [{eff}]'
