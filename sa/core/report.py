"""Harness: obligations, findings, known-finding matching, evidence, exit codes.

Exit codes: 0 = every obligation explored holds (or fails only at a listed known
finding), 1 = at least one unlisted violation, 2 = ANALYSIS-ERROR (the analyser
could not decide: anchor vanished, floor not reached, unsupported construct,
rustc failed).  A traceback is never allowed to look like a violation.
"""
from __future__ import annotations

import json
import os
import re
import sys
import time

VERIF = os.path.dirname(os.path.dirname(os.path.dirname(os.path.abspath(__file__))))
REPO = os.environ.get('PI2_REPO', '/repo')
EVIDENCE_DIR = os.environ.get('PI2_EVIDENCE_DIR', os.path.join(VERIF, 'evidence'))
KNOWN_FILE = os.path.join(VERIF, 'known_findings.json')


class AnalysisError(Exception):
    """The analysis cannot decide (never a pass, never a violation)."""


def repo_path(*parts: str) -> str:
    return os.path.join(REPO, *parts)


def py_root() -> str:
    return repo_path('generation', 'src', 'proof_generation')


def _slug(s: str) -> str:
    return re.sub(r'[^A-Za-z0-9_.-]+', '_', s)[:120]


def load_known() -> dict:
    if not os.path.exists(KNOWN_FILE):
        return {'findings': [], 'fixed': []}
    with open(KNOWN_FILE) as f:
        return json.load(f)


class Ctx:
    """One run of one property's check."""

    def __init__(self, pid: str, tier: str, level: str = 'other'):
        self.pid = pid
        self.tier = tier
        self.level = level
        self.seed = int(os.environ.get('VERIF_SEED', '0') or 0)
        self.t0 = time.time()
        self.obligations: list[dict] = []
        self.advisories: list[str] = []
        self.declined: list[dict] = []
        self.analysed: dict[str, object] = {}
        self.assumptions: list[str] = []
        self.samples: list[object] = []
        self.floors: list[tuple[str, int]] = []
        self.explanation = ''
        self.rule_text = ''
        self.trusted_base: list[str] = []
        self.quiet = bool(os.environ.get('PI2_QUIET'))

    # -- recording -----------------------------------------------------
    def ob(self, rule: str, construct: str, ok: bool, detail: str = '', where: str = '',
           facts: object = None, nontrivial: bool = True) -> bool:
        """Record one obligation (rule instance) and its verdict."""
        self.obligations.append({
            'rule': rule, 'construct': construct, 'ok': bool(ok), 'detail': detail,
            'where': where, 'facts': facts, 'nontrivial': nontrivial,
        })
        return bool(ok)

    def advisory(self, text: str) -> None:
        self.advisories.append(text)

    def decline(self, name: str, reason: str) -> None:
        self.declined.append({'name': name, 'reason': reason})

    def require(self, cond: object, msg: str) -> None:
        if not cond:
            raise AnalysisError(msg)

    def floor(self, rule: str, n: int) -> None:
        self.floors.append((rule, n))

    def count(self, rule: str) -> int:
        return sum(1 for o in self.obligations if o['rule'] == rule or o['rule'].startswith(rule + '/'))

    # -- finishing -----------------------------------------------------
    def finish(self) -> int:
        floor_error = None
        for rule, n in self.floors:
            got = self.count(rule)
            if got < n and floor_error is None:
                floor_error = (f'instance floor not reached for rule {rule}: {got} < {n} '
                               f'(a rule matching fewer sites than confirmed by hand must not pass)')
        known = load_known()
        listed = {(k['rule'], k['construct']): k for k in known.get('findings', []) if k.get('property') == self.pid}
        failing = [o for o in self.obligations if not o['ok']]
        viol, kf = [], []
        seen = set()
        for o in failing:
            key = (o['rule'], o['construct'])
            if key in seen:
                continue
            seen.add(key)
            ent = listed.get(key)
            # a listed finding is identified by what fails, not only where: a different failure at the same construct is new
            if ent is not None and ent.get('detail') is not None and ent['detail'] != o['detail']:
                ent = None
            (kf if ent is not None else viol).append(o)
        # a rule that lost instances without any reported violation passed vacuously: analysis broken.  With a violation reported the
        # missing instances are explained by the construct the violation names.
        if floor_error is not None and not viol:
            raise AnalysisError(floor_error)
        out = sys.stdout
        if not self.quiet:
            print(f'[{self.pid}] tier={self.tier} obligations={len(self.obligations)} '
                  f'failing={len(failing)} known={len(kf)} declined={len(self.declined)}')
            for k, v in self.analysed.items():
                print(f'[{self.pid}] analysed {k}: {v}')
            for d in self.declined:
                print(f'[{self.pid}] declined {d["name"]}: {d["reason"]}')
            for a in self.advisories:
                print(f'[{self.pid}] advisory: {a}')
        for o in kf:
            k = listed[(o['rule'], o['construct'])]
            print(f'KNOWN-FINDING: property={self.pid} rule={o["rule"]} construct={o["construct"]} -- {k.get("what", o["detail"])}')
        replay_dir = os.path.join(EVIDENCE_DIR, 'replay', self.pid)
        for o in viol:
            os.makedirs(replay_dir, exist_ok=True)
            path = os.path.join(replay_dir, _slug(f'{o["rule"]}__{o["construct"]}') + '.json')
            with open(path, 'w') as f:
                json.dump({'property': self.pid, 'rule': o['rule'], 'construct': o['construct'],
                           'where': o['where'], 'detail': o['detail'], 'facts': o['facts']}, f, indent=1, default=str)
            print(f'  {o["where"] or "?"}: rule {o["rule"]} instance {o["construct"]}: {o["detail"]}')
            print(f'VIOLATION property={self.pid} replay={path}')
        self._write_evidence(len(viol), len(kf))
        out.flush()
        return 1 if viol else 0

    def _write_evidence(self, nviol: int, nknown: int) -> None:
        os.makedirs(EVIDENCE_DIR, exist_ok=True)
        n = len(self.obligations)
        ok = sum(1 for o in self.obligations if o['ok'])
        distinct = len({(o['rule'], o['construct']) for o in self.obligations if o['nontrivial']})
        per_rule: dict[str, int] = {}
        for o in self.obligations:
            per_rule[o['rule']] = per_rule.get(o['rule'], 0) + 1
        samples = list(self.samples)
        if not samples:
            pick = [o for o in self.obligations if o['facts'] is not None and o['nontrivial']]
            pick = (pick[:: max(1, len(pick) // 6)] if pick else self.obligations)[:8]
            for o in pick:
                samples.append({k: o[k] for k in ('rule', 'construct', 'ok', 'detail', 'where', 'facts')
                                if o[k] not in ('', None)})
        cov: dict[str, object] = {
            'explanation': self.explanation,
            'evaluations': n,
            'distinct_nontrivial': distinct,
            'rule': self.rule_text or 'one evaluation = one rule instance (rule, construct) decided on the current tree; '
                                      'non-trivial = the instance has at least one extracted fact (atom, resolved callee, table row); '
                                      'distinct = distinct (rule, construct) pairs',
            'samples': samples,
            'obligations': n,
            'discharged': ok,
            'per_rule': per_rule,
            'declined': self.declined,
            'advisories': self.advisories,
            'analysed': self.analysed,
            'known_findings_reported': nknown,
            'exhaustive': True,
        }
        if self.level == 'proof':
            cov['checker_cmd'] = f'./check {self.pid} --tier {self.tier}'
            cov['trusted_base'] = self.trusted_base
        ev = {
            'property_id': self.pid,
            'tier': self.tier,
            'seed': self.seed,
            'level': self.level,
            'coverage': cov,
            'assumptions': self.assumptions,
            'wall_s': round(time.time() - self.t0, 3),
            'violations': nviol,
        }
        with open(os.path.join(EVIDENCE_DIR, f'{self.pid}.json'), 'w') as f:
            json.dump(ev, f, indent=1, default=str)
            f.write('\n')
