"""Engine D applied to the lemma library (C10): a modular schema type-checker.

Every method of the lemma classes that returns a ProofThunk and carries a schema docstring is a function with a
dependent signature: ProofThunk parameters have the docstring premises as conclusions, the result must have the
docstring conclusion.  Bodies are evaluated symbolically (ast path evaluation); calls to other lemmas use the callee's
*declared* schema, never its body; the primitives have built-in rules.
"""
from __future__ import annotations

import ast
import re

from .pyeval import PyEval, Decline as PyDecline, show
from .pyfacts import PyRepo, ClassInfo
from .report import AnalysisError
from .terms import Notations, MV, subst_mv, tshow
from ..spec.axioms import AXIOMS as SPEC_AXIOMS, EMPTY

SELF = ('param', 'self')


class Decline(Exception):
    pass


class Violation(Exception):
    pass


def IMP(a, b):
    return ('P', 'Implies', a, b)


def is_imp(t):
    return isinstance(t, tuple) and len(t) == 4 and t[0] == 'P' and t[1] == 'Implies'


def sub_uv(t, b):
    if isinstance(t, tuple) and t:
        if t[0] == 'uv':
            return b.get(t[1], t)
        if t[0] == 'P':
            return t[:2] + tuple(sub_uv(x, b) for x in t[2:])
    return t


def uvs(t, acc):
    if isinstance(t, tuple) and t:
        if t[0] == 'uv':
            if t[1] not in acc:
                acc.append(t[1])
        elif t[0] == 'P':
            for x in t[2:]:
                uvs(x, acc)
    return acc


def match(pat, tgt, b):
    """pat may contain ('uv', name) unknowns; -> extended bindings or None"""
    if isinstance(pat, tuple) and pat and pat[0] == 'uv':
        if pat[1] in b:
            return b if b[pat[1]] == tgt else None
        b = dict(b)
        b[pat[1]] = tgt
        return b
    if isinstance(pat, tuple) and pat and pat[0] == 'P':
        if not (isinstance(tgt, tuple) and tgt and tgt[0] == 'P' and tgt[1] == pat[1] and len(tgt) == len(pat)):
            return None
        for x, y in zip(pat[2:], tgt[2:]):
            b = match(x, y, b)
            if b is None:
                return None
        return b
    return b if pat == tgt else None


def match_mv(pat, tgt, b):
    """match a notation definition (metavariables as unknowns) against a term"""
    if isinstance(pat, tuple) and pat and pat[0] == 'P' and pat[1] == 'MetaVar' and pat[2][0] == 'int':
        k = pat[2][1]
        if k in b:
            return b if b[k] == tgt else None
        b = dict(b)
        b[k] = tgt
        return b
    if isinstance(pat, tuple) and pat and pat[0] == 'P':
        if not (isinstance(tgt, tuple) and tgt and tgt[0] == 'P' and tgt[1] == pat[1] and len(tgt) == len(pat)):
            return None
        for x, y in zip(pat[2:], tgt[2:]):
            b = match_mv(x, y, b)
            if b is None:
                return None
        return b
    return b if pat == tgt else None


# ----------------------------------------------------------------------------
# docstring grammar

TOK = re.compile(r'\s*(<->|->|/\\|\\/|~|¬|\(|\)|[A-Za-z][A-Za-z0-9_]*)')


def tokenize(s):
    out, i = [], 0
    s = s.strip()
    while i < len(s):
        m = TOK.match(s, i)
        if not m:
            raise SyntaxError(f'unexpected text {s[i:i + 12]!r}')
        out.append(m.group(1))
        i = m.end()
    return out


class Parser:
    def __init__(self, toks, N: Notations):
        self.t, self.i, self.N = toks, 0, N

    def peek(self):
        return self.t[self.i] if self.i < len(self.t) else None

    def eat(self, x=None):
        t = self.peek()
        if x is not None and t != x:
            raise SyntaxError(f'expected {x} got {t}')
        self.i += 1
        return t

    def equiv(self):
        a = self.imp()
        if self.peek() == '<->':
            self.eat()
            b = self.imp()
            return self.N.apply('equiv', [a, b])
        return a

    def imp(self):
        a = self.disj()
        if self.peek() == '->':
            self.eat()
            return IMP(a, self.imp())
        return a

    def disj(self):
        a = self.conj()
        while self.peek() == '\\/':
            self.eat()
            a = self.N.apply('_or', [a, self.conj()])
        return a

    def conj(self):
        a = self.unary()
        while self.peek() == '/\\':
            self.eat()
            a = self.N.apply('_and', [a, self.unary()])
        return a

    def unary(self):
        t = self.peek()
        if t in ('~', '¬'):
            self.eat()
            return self.N.apply('neg', [self.unary()])
        if t == '(':
            self.eat()
            a = self.equiv()
            self.eat(')')
            return a
        if t is None or not re.match(r'[A-Za-z]', t):
            raise SyntaxError(f'unexpected {t}')
        self.eat()
        if t in ('T', 'top'):
            return self.N.apply('top', [])
        if t == 'bot':
            return self.N.apply('bot', [])
        return ('uv', t)


def parse_formula(txt: str, N: Notations):
    p = Parser(tokenize(txt), N)
    a = p.equiv()
    if p.peek() is not None:
        raise SyntaxError(f'trailing {p.t[p.i:]}')
    return a


def parse_schema(ds: str):
    """docstring -> (premise texts, conclusion text) or None when it is prose"""
    lines = ds.strip('\n').split('\n')
    rule = [i for i, l in enumerate(lines) if re.fullmatch(r'\s*-{3,}\s*', l)]
    if rule:
        k = rule[0]
        prem_raw = '    '.join(l.strip() for l in lines[:k] if l.strip())
        premises = [x for x in re.split(r'\s{2,}', prem_raw.strip()) if x]
        concl = ' '.join(l.strip() for l in lines[k + 1:] if l.strip())
        return premises, concl
    body = [l for l in lines if l.strip()]
    if len(body) == 1:
        return [], body[0].strip()
    return None


# ----------------------------------------------------------------------------

class Lemma:
    def __init__(self, name, owner: ClassInfo, fn: ast.FunctionDef):
        self.name, self.owner, self.fn = name, owner, fn
        self.params = []          # (name, kind) kind in pf | pat | other
        for a in fn.args.args[1:]:
            ann = ast.unparse(a.annotation) if a.annotation else ''
            self.params.append((a.arg, 'pf' if ann == 'ProofThunk' else 'pat' if ann == 'Pattern' else 'other'))
        self.defaults = {}
        d = fn.args.defaults
        for (pn, _k), dv in zip(self.params[len(self.params) - len(d):], d):
            self.defaults[pn] = dv
        self.schemas = None       # list of (premises, conclusion) alternatives
        self.why_no_schema = None
        self.builtin = None


class SchemaChecker:
    PRIMS = {'prop1': 'Prop1', 'prop2': 'Prop2', 'prop3': 'Prop3'}

    def __init__(self, py: PyRepo, classes: list[str]):
        self.py = py
        self.N = Notations(py)
        self.lemmas: dict[str, Lemma] = {}
        self.classes = [py.cls(c) for c in classes]
        for ci in self.classes:            # later classes (subclasses) override
            for name, fn in ci.methods.items():
                self.lemmas[name] = Lemma(name, ci, fn)
        self.axioms = self._axiom_lists()
        self._load_schemas()

    # -- axioms of each class, statically ------------------------------
    def _axiom_lists(self) -> dict[str, list]:
        """class name -> list of axiom terms after __init__ (super().__init__(axioms=[...]) and self._axioms.extend([...]))"""
        out = {}
        ev = PyEval()
        for ci in self.classes:
            lst: list = []
            for c in reversed(self.py.mro(ci)):
                init = c.methods.get('__init__')
                if init is None or c.name == 'ProofExp':
                    continue
                for n in ast.walk(init):
                    if isinstance(n, ast.Call) and isinstance(n.func, ast.Attribute):
                        tgt = ast.unparse(n.func)
                        if tgt == 'super().__init__':
                            for kw in n.keywords:
                                if kw.arg == 'axioms' and isinstance(kw.value, ast.List):
                                    lst = [self._static_term(e, ev) for e in kw.value.elts]
                        elif tgt in ('self._axioms.extend', 'self.add_axioms') and n.args and isinstance(n.args[0], ast.List):
                            lst = lst + [self._static_term(e, ev) for e in n.args[0].elts]
                        elif tgt in ('self._axioms.append', 'self.add_axiom') and n.args:
                            lst = lst + [self._static_term(n.args[0], ev)]
            out[ci.name] = lst
        return out

    def _static_term(self, e, ev):
        try:
            return self.N.term(ev.expr(e, {}, []), 'pattern', {})
        except (PyDecline, AnalysisError) as x:
            raise AnalysisError(f'axiom expression outside the subset: {ast.unparse(e)} ({x})')

    # -- schemas ----------------------------------------------------------
    def _load_schemas(self):
        for lem in self.lemmas.values():
            fn = lem.fn
            if not (fn.returns is not None and ast.unparse(fn.returns) == 'ProofThunk'):
                lem.why_no_schema = 'does not return a ProofThunk'
                continue
            ds = ast.get_docstring(fn, clean=False)
            if not ds:
                lem.why_no_schema = 'no docstring'
                continue
            alts = [ds]
            if 'or, alternatively' in ds:
                alts = [x for x in ds.split('or, alternatively')]
            schemas = []
            try:
                for a in alts:
                    sc = parse_schema(a)
                    if sc is None:
                        raise SyntaxError('prose')
                    prem_txt, concl_txt = sc
                    prems = [parse_formula(t, self.N) for t in prem_txt]
                    concl = parse_formula(concl_txt, self.N)
                    schemas.append((prems, concl))
            except SyntaxError as e:
                lem.why_no_schema = f'docstring outside the schema grammar ({e})'
                continue
            lem.schemas = schemas

    # -- evaluation ---------------------------------------------------------
    def default_of(self, lem: Lemma, pn: str):
        dv = lem.defaults.get(pn)
        if dv is None:
            return None
        s = ast.unparse(dv)
        if s in ('phi0', 'phi1', 'phi2'):
            return ('pat', MV(int(s[3])))
        return None

    def apply_lemma(self, name, args, kwargs, caller, cls):
        lem = self.lemmas[name]
        bound = {}
        for (pn, _k), a in zip(lem.params, args):
            bound[pn] = a
        if lem.fn.args.vararg is not None:
            # def h(self, pf, *pats): the surplus positional arguments as one tuple
            bound['*' + lem.fn.args.vararg.arg] = ('tuple', list(args[len(lem.params):]))
        for k, v in kwargs:
            bound[k] = v
        for pn, _k in lem.params:
            if pn not in bound:
                d = self.default_of(lem, pn)
                if d is None:
                    raise Decline(f'call of {name} without argument {pn}')
                bound[pn] = d
        if lem.schemas is None:
            # undocumented helper: evaluate its body modularly only if it is one of the instantiation helpers
            return self.inline_helper(lem, bound, caller, cls)
        prems, concl = lem.schemas[0]
        pfparams = [pn for pn, k in lem.params if k == 'pf']
        if len(pfparams) != len(prems):
            raise Decline(f'{name}: {len(prems)} premises for {len(pfparams)} proof parameters')
        b = {}
        for pn, pr in zip(pfparams, prems):
            v = bound[pn]
            if v[0] != 'pf':
                raise Violation(f'{caller}: argument {pn} of {name} is not a proof')
            b2 = match(pr, v[1], b)
            if b2 is None:
                raise Violation(f'{caller}: premise `{pn}` of {name} must have the shape {tshow_uv(sub_uv(pr, b))} '
                                f'but the argument proves {tshow(v[1])}')
            b = b2
        b = self.bind_free(lem, prems, concl, b, bound)
        return ('pf', sub_uv(concl, b))

    def inline_helper(self, lem: Lemma, bound, caller, cls):
        """helpers without a schema docstring (prop1_inst, prop2_inst, dneg_elim ...): evaluate the body with the actual arguments"""
        if getattr(self, '_depth', 0) > 6:
            raise Decline(f'{lem.name}: helper nesting too deep')
        self._depth = getattr(self, '_depth', 0) + 1
        try:
            return self.eval_body(lem, bound, lem.name, cls)
        finally:
            self._depth -= 1

    def bind_free(self, lem: Lemma, prems, concl, b, bound):
        free = [v for v in uvs(concl, []) if v not in b]
        patparams = [pn for pn, k in lem.params if k == 'pat']
        b = dict(b)
        rest = []
        for v in free:
            if v in patparams:
                b[v] = bound[v][1]
            else:
                rest.append(v)
        used = set(v for v in free if v in patparams)
        # pattern parameters already determined by premise variables of the same name keep their meaning
        remaining = [p for p in patparams if p not in used and p not in b]
        rest_sorted = sorted(rest)
        if len(rest_sorted) > len(remaining):
            raise Decline(f'{lem.name}: cannot relate docstring variables {rest_sorted} to pattern parameters {remaining}')
        for v, p in zip(rest_sorted, remaining):
            b[v] = bound[p][1]
        return b

    def eval_body(self, lem: Lemma, bound: dict, caller: str, cls: str):
        ev = PyEval()
        try:
            paths = ev.paths(lem.fn)
        except PyDecline as d:
            raise Decline(f'{lem.name}: {d}')
        acc = [p for p in paths if p.end[0] == 'return']
        if len(acc) != 1 or any(e.kind == 'loop' for p in acc for e in p.events):
            raise Decline(f'{lem.name}: not straight-line ({len(acc)} returning paths)')
        p = acc[0]
        ty = Typer(self, bound, caller, cls)
        # asserts / guards on the accepting path must be provable from the premises
        for c, pol in p.conds:
            if c[0] == 'cmp' and c[1] == '==':
                a, b = ty.pat(c[2]), ty.pat(c[3])
                if (a == b) != pol:
                    raise Violation(f'{caller}: assertion `{show(c)}` is not implied by the premises: {tshow(a)} vs {tshow(b)}')
            elif c[0] == 'cmp' and c[1] == 'is' and c[3] == ('const', None):
                continue
            else:
                raise Decline(f'{lem.name}: condition outside the subset: {show(c)}')
        return ty.val(p.end[1])

    def check(self, name: str, cls: str):
        """-> number of obligations discharged; raises Decline / Violation"""
        lem = self.lemmas[name]
        if lem.schemas is None:
            raise Decline(lem.why_no_schema or 'no schema')
        n = 0
        for prems, concl in lem.schemas:
            pfparams = [pn for pn, k in lem.params if k == 'pf']
            if len(pfparams) != len(prems):
                raise Decline(f'{len(prems)} premises for {len(pfparams)} proof parameters')
            if any(k == 'other' for _pn, k in lem.params):
                raise Decline('non-pattern, non-proof parameter')
            atom = lambda v: ('P', 'Symbol', ('str', '$' + v))      # noqa: E731  a fresh constant stands for an arbitrary pattern
            premvars: list = []
            bound = {}
            for pn, pr in zip(pfparams, prems):
                uvs(pr, premvars)
            pb = {v: atom('d_' + v) for v in premvars}
            for pn, pr in zip(pfparams, prems):
                bound[pn] = ('pf', sub_uv(pr, pb))
            for pn, k in lem.params:
                if k == 'pat':
                    # a pattern parameter named like a premise variable denotes that pattern
                    bound[pn] = ('pat', pb[pn] if pn in pb else atom('p_' + pn))
            got = self.eval_body(lem, bound, name, cls)
            if got[0] != 'pf':
                raise Decline('does not return a proof expression')
            b = self.bind_free(lem, prems, concl, pb, bound)
            exp = sub_uv(concl, b)
            if exp != got[1]:
                raise Violation(f'{name} proves {tshow(got[1])} but its documentation promises {tshow(exp)}')
            n += 1
        return n


def _mentions_argument(t) -> bool:
    if isinstance(t, tuple) and t:
        if t[0] == 'P' and t[1] == 'Symbol' and t[2][0] == 'str' and str(t[2][1]).startswith('$'):
            return True
        return any(_mentions_argument(x) for x in t if isinstance(x, tuple))
    return False


def tshow_uv(t):
    return tshow(t)


class Typer:
    def __init__(self, sc: SchemaChecker, bound: dict, caller: str, cls: str):
        self.sc, self.bound, self.caller, self.cls = sc, bound, caller, cls
        self.env = {}
        for pn, v in bound.items():
            if v[0] == 'pat':
                self.env[('param', pn)] = v[1]

    def pf(self, v):
        r = self.val(v)
        if r[0] != 'pf':
            raise Violation(f'{self.caller}: {show(v)[:80]} is not a proof')
        return r[1]

    def pat(self, v):
        r = self.val(v)
        if r[0] != 'pat':
            raise Decline(f'{self.caller}: {show(v)[:80]} is not a pattern')
        return r[1]

    overrides: dict = {}

    def val(self, v):
        sc = self.sc
        if v in self.overrides:
            return self.overrides[v]
        k = v[0]
        if k == 'param':
            if v[1] in self.bound:
                return self.bound[v[1]]
            raise Decline(f'{self.caller}: unbound parameter {v[1]}')
        if k == 'attr' and v[2] == 'conc':
            return ('pat', self.pf(v[1]))
        if k == 'name' and v[1] in ('phi0', 'phi1', 'phi2'):
            return ('pat', MV(int(v[1][3])))
        if k == 'const' and isinstance(v[1], int):
            return ('int', v[1])
        if k == 'item' and isinstance(v[2], int):
            tup = self.val(v[1])
            if tup[0] != 'tuple' or not (-len(tup[1]) <= v[2] < len(tup[1])):
                raise Decline(f'{self.caller}: cannot index {show(v[1])[:60]}')
            return tup[1][v[2]]
        if k == 'sub' and v[2][0] == 'const' and isinstance(v[2][1], int):
            tup = self.val(v[1])
            if tup[0] != 'tuple' or not (-len(tup[1]) <= v[2][1] < len(tup[1])):
                raise Decline(f'{self.caller}: cannot index {show(v[1])[:60]}')
            return tup[1][v[2][1]]
        if k in ('tuple', 'list'):
            return ('tuple', [self.val(x) for x in v[1]])
        if k == 'dict':
            d = {}
            for kk, vv in v[1]:
                if kk[0] != 'const' or not isinstance(kk[1], int):
                    raise Decline(f'{self.caller}: substitution with a non-literal key')
                d[kk[1]] = self.pat(vv)
            return ('subst', d)
        if k == 'call':
            return self.call(v)
        raise Decline(f'{self.caller}: expression outside the subset: {show(v)[:80]}')

    def call(self, v):
        sc = self.sc
        f, args, kwargs = v[1], v[2], v[3]
        if f[0] == 'name':
            fn = f[1]
            if fn in ('Implies', 'imp'):
                return ('pat', IMP(self.pat(args[0]), self.pat(args[1])))
            if sc.N.is_notation(fn):
                return ('pat', sc.N.apply(fn, [self.pat(a) for a in args]))
            if fn == 'MetaVar' and len(args) == 1 and args[0][0] == 'const':
                return ('pat', MV(args[0][1]))
            if fn in ('list', 'tuple') and len(args) == 1 and not kwargs:
                lst = self.val(args[0])
                if lst[0] != 'tuple':
                    raise Decline(f'{self.caller}: {fn}() of something that is not a literal sequence')
                return lst
            if fn == '_build_subst' and len(args) == 1:
                lst = self.val(args[0])
                if lst[0] != 'tuple':
                    raise Decline(f'{self.caller}: _build_subst of a non-literal list')
                d = {}
                for i, x in enumerate(lst[1]):
                    if x[0] != 'pat':
                        raise Decline(f'{self.caller}: _build_subst element is not a pattern')
                    if x[1] != MV(i):
                        d[i] = x[1]
                return ('subst', d)
            raise Decline(f'{self.caller}: call of {fn}')
        if f[0] == 'attr' and f[1][0] == 'name' and f[2] in ('extract', 'unwrap') and f[1][1] == 'Implies':
            t = self.pat(args[0])
            if not is_imp(t):
                raise Violation(f'{self.caller}: Implies.extract of {tshow(t)}, which is not an implication for every premise of the documented shape')
            return ('tuple', [('pat', t[2]), ('pat', t[3])])
        if f[0] == 'attr' and f[1][0] == 'name' and f[2] in ('assert_matches', 'matches') and sc.N.is_notation(f[1][1]):
            nm = f[1][1]
            ar, d, _m = sc.N.defs[nm]
            t = self.pat(args[0])
            b = match_mv(d, t, {})
            if b is None:
                raise Violation(f'{self.caller}: {nm}.assert_matches on {tshow(t)}, which does not have that shape for every premise of the documented shape')
            return ('tuple', [('pat', b[i] if i in b else MV(i)) for i in range(ar)])
        if f[0] == 'attr' and f[1] == SELF:
            m = f[2]
            if m == 'modus_ponens':
                l, r = self.pf(args[0]), self.pf(args[1])
                if not is_imp(l):
                    raise Violation(f'{self.caller}: modus_ponens whose first premise {tshow(l)} is not an implication')
                if l[2] != r:
                    raise Violation(f'{self.caller}: modus_ponens antecedent {tshow(l[2])} differs from the second premise {tshow(r)}')
                return ('pf', l[3])
            if m in ('dynamic_inst', 'instantiate'):
                pf = self.pf(args[0])
                sv = self.val(args[1])
                if sv[0] != 'subst':
                    raise Decline(f'{self.caller}: instantiation map is not literal')
                if sv[1] and _mentions_argument(pf):
                    # an argument pattern may itself contain metavariables; instantiating over it would change it
                    raise Decline(f'{self.caller}: instantiates a proof whose conclusion mentions an argument pattern')
                return ('pf', subst_mv(pf, sv[1]))
            if m in SchemaChecker.PRIMS and not args:
                return ('pf', SPEC_AXIOMS[SchemaChecker.PRIMS[m]])
            if m == 'load_axiom_by_index' and len(args) == 1 and args[0][0] == 'const':
                ax = sc.axioms.get(self.cls, [])
                i = args[0][1]
                if not (0 <= i < len(ax)):
                    raise Violation(f'{self.caller}: load_axiom_by_index({i}) but class {self.cls} declares {len(ax)} axioms')
                return ('pf', ax[i])
            if m == 'load_axiom' and len(args) == 1:
                t = self.pat(args[0])
                if t not in sc.axioms.get(self.cls, []):
                    raise Violation(f'{self.caller}: load_axiom of {tshow(t)}, which is not a declared axiom of {self.cls}')
                return ('pf', t)
            if m in ('imp_trans_match1', 'imp_trans_match2') and len(args) == 2:
                # transitivity with ONE side instantiated to fit the other (run-time matching in the code; decided here on terms:
                # the instantiated side must be a pure schema - metavariables only - so that instantiating it is well defined)
                h1, h2 = self.pf(args[0]), self.pf(args[1])
                if not (is_imp(h1) and is_imp(h2)):
                    raise Violation(f'{self.caller}: {m} on a premise that is not an implication')
                schema_side, fixed = (h1, h2) if m == 'imp_trans_match1' else (h2, h1)
                if _mentions_argument(schema_side):
                    raise Decline(f'{self.caller}: {m} instantiates a premise that mentions an argument pattern')
                if m == 'imp_trans_match1':
                    sig = match_mv(h1[3], h2[2], {})
                    if sig is None:
                        raise Violation(f'{self.caller}: imp_trans_match1: {tshow(h1[3])} does not match {tshow(h2[2])}')
                    return ('pf', IMP(subst_mv(h1[2], sig), h2[3]))
                sig = match_mv(h2[2], h1[3], {})
                if sig is None:
                    raise Violation(f'{self.caller}: imp_trans_match2: {tshow(h2[2])} does not match {tshow(h1[3])}')
                return ('pf', IMP(h1[2], subst_mv(h2[3], sig)))
            if m in sc.lemmas:
                a = [self.val(x) for x in args]
                kw = [(k, self.val(x)) for k, x in kwargs]
                return sc.apply_lemma(m, a, kw, self.caller, self.cls)
            raise Decline(f'{self.caller}: call of self.{m}')
        raise Decline(f'{self.caller}: call outside the subset: {show(v)[:80]}')
