#!/bin/sh
# usage: tools/twincheck.sh <twin dir name under twins/> <Cnn> [Cnn ..] -> runs the given checks on a scratch copy with the twin applied
t=$1; shift
d=$(tools/apply_scratch.sh /verif/twins/$t/patch.diff)
for c in "$@"; do PI2_REPO=$d PI2_EVIDENCE_DIR=$d/_ev ./check $c > $d/out.txt 2>&1; echo "$t $c exit=$?"; grep -E "VIOLATION|ANALYSIS-ERROR|rule " $d/out.txt | cut -c1-400 | head -3; done
rm -rf $d
