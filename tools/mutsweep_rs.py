#!/usr/bin/env python3
"""Mutation sweep of rust/src/lib.rs against the checks (the Rust counterpart of tools/mutsweep.py; it evaluates the analyser and is
not part of any deciding step).  Textual mutations of the non-test part of the checker - comparison and boolean operator flips,
`true` / `false` exchanged, a leading `!` dropped, `left` / `right` exchanged on a line, `e_fresh` / `s_fresh` exchanged on a line -
are each compiled (mutants that do not compile are skipped), written to a scratch copy and the given checks are run.

usage: tools/mutsweep_rs.py <Cnn,Cnn,..> [--from LINE] [--to LINE] [--jobs N]
"""
import concurrent.futures as cf
import os
import re
import shutil
import subprocess
import sys
import tempfile

HERE = os.path.dirname(os.path.dirname(os.path.abspath(__file__)))
REPO = '/repo'
SRC = f'{REPO}/rust/src/lib.rs'

PAIRS = [(' == ', ' != '), (' != ', ' == '), (' < ', ' <= '), (' <= ', ' < '), (' > ', ' >= '), (' >= ', ' > '),
         (' && ', ' || '), (' || ', ' && ')]


def mutants(lines, lo, hi):
    for i in range(lo - 1, min(hi, len(lines))):
        l = lines[i]
        code = l.split('//')[0]
        if not code.strip() or code.strip().startswith(('#', 'use ', 'pub use ', 'extern ')):
            continue
        for a, b in PAIRS:
            for m in re.finditer(re.escape(a), code):
                if a.strip() in ('<', '>') and re.search(r'[A-Za-z_:]<|->|=>', code[max(0, m.start() - 2):m.end() + 1]):
                    continue
                yield i, f'{a.strip()} -> {b.strip()}', l[:m.start()] + b + l[m.end():]
        for w, v in (('true', 'false'), ('false', 'true')):
            for m in re.finditer(rf'\b{w}\b', code):
                yield i, f'{w} -> {v}', l[:m.start()] + v + l[m.end():]
        for m in re.finditer(r'(?<![=!<>])!(?=[A-Za-z_(])', code):
            if code[m.end():].startswith(('panic', 'assert', 'unreachable', 'vec', 'format', 'matches', 'println', 'write', 'unimplemented')):
                continue
            yield i, 'drop !', l[:m.start()] + l[m.end():]
        # one identifier replaced by its sibling (soundness-critical pairs: a pattern taken for a proof, one judgement for another)
        for a, b in (('Term::Pattern', 'Term::Proved'), ('Term::Proved', 'Term::Pattern'), ('pop_stack_pattern', 'pop_stack_proved'),
                     ('pop_stack_proved', 'pop_stack_pattern'), ('.e_fresh(', '.s_fresh('), ('.s_fresh(', '.e_fresh('),
                     ('.positive(', '.negative('), ('.negative(', '.positive('), ('ExecutionPhase::Gamma', 'ExecutionPhase::Claim'),
                     ('ExecutionPhase::Claim', 'ExecutionPhase::Proof'), ('ExecutionPhase::Proof', 'ExecutionPhase::Gamma'),
                     ('apply_esubst(', 'apply_ssubst('), ('apply_ssubst(', 'apply_esubst('), (' + 1', ' + 2'), (' - 1', ' - 2'),
                     ('Instruction::ESubst', 'Instruction::SSubst'), ('Pattern::Exists', 'Pattern::Mu'), ('Pattern::Mu', 'Pattern::Exists')):
            for m in re.finditer(re.escape(a), code):
                yield i, f'{a} -> {b}', l[:m.start()] + b + l[m.end():]
        # an effect statement dropped
        if re.fullmatch(r'\s*(stack|memory|claims|journal)\.(push|pop|insert|remove|clear)\(.*\);\s*', code) or \
                re.fullmatch(r'\s*(instantiate_in_place|execute_instructions)\(.*\);\s*', code):
            yield i, 'drop statement', ''
        for a, b in (('left', 'right'), ('e_fresh', 's_fresh'), ('positive', 'negative'), ('evar_id', 'svar_id')):
            if re.search(rf'\b{a}\b', code) and re.search(rf'\b{b}\b', code):
                sw = re.sub(rf'\b({a}|{b})\b', lambda m_: b if m_.group(1) == a else a, l)
                if sw != l:
                    yield i, f'{a} <-> {b}', sw


def compiles(path):
    d = tempfile.mkdtemp(prefix='pi2rsc-')
    try:
        env = dict(os.environ, RUSTUP_TOOLCHAIN='nightly')
        env.pop('RUSTFLAGS', None)
        r = subprocess.run(['rustc', '--edition', '2021', '--crate-type', 'lib', '--crate-name', 'checker', '--cap-lints', 'allow',
                            '--emit=metadata', '-o', f'{d}/m.rmeta', path], cwd=d, env=env, capture_output=True, text=True, timeout=300)
        return r.returncode == 0
    finally:
        shutil.rmtree(d, ignore_errors=True)


def run_one(args):
    desc, text, props = args
    d = tempfile.mkdtemp(prefix='pi2mut-')
    try:
        os.makedirs(f'{d}/generation/src', exist_ok=True)
        shutil.copytree(f'{REPO}/generation/src/proof_generation', f'{d}/generation/src/proof_generation',
                        ignore=shutil.ignore_patterns('__pycache__', 'tests'))
        os.makedirs(f'{d}/rust/src', exist_ok=True)
        for f in os.listdir(f'{REPO}/rust/src'):
            shutil.copy(f'{REPO}/rust/src/{f}', f'{d}/rust/src/')
        if os.path.isdir(f'{REPO}/docs'):
            shutil.copytree(f'{REPO}/docs', f'{d}/docs')
        os.makedirs(f'{d}/generation/mm-benchmarks', exist_ok=True)
        for f in os.listdir(f'{REPO}/generation/mm-benchmarks'):
            if f.endswith('.mm'):
                shutil.copy(f'{REPO}/generation/mm-benchmarks/{f}', f'{d}/generation/mm-benchmarks/')
        open(f'{d}/rust/src/lib.rs', 'w').write(text)
        if not compiles(f'{d}/rust/src/lib.rs'):
            return desc, None
        env = dict(os.environ, PI2_REPO=d, PI2_EVIDENCE_DIR=f'{d}/_ev', PI2_QUIET='1')
        res = {}
        for p in props:
            r = subprocess.run([sys.executable, '-m', 'sa.main', p], cwd=HERE, env=env, capture_output=True, text=True, timeout=900)
            res[p] = r.returncode
            if r.returncode != 0:
                break
        return desc, res
    finally:
        shutil.rmtree(d, ignore_errors=True)


def main():
    props = sys.argv[1].split(',')
    lines = open(SRC).read().split('\n')
    test_at = next((i for i, l in enumerate(lines) if l.startswith("mod tests")), len(lines))
    lo, hi, jobs = 1, test_at, 14
    a = sys.argv[2:]
    while a:
        if a[0] == '--from':
            lo = int(a[1])
        elif a[0] == '--to':
            hi = min(int(a[1]), test_at)
        elif a[0] == '--jobs':
            jobs = int(a[1])
        a = a[2:]
    work = []
    for i, what, new in mutants(lines, lo, hi):
        text = '\n'.join(lines[:i] + [new] + lines[i + 1:])
        work.append((f'lib.rs:{i + 1} {what} `{lines[i].strip()[:70]}`', text, props))
    print(f'{len(work)} mutants of rust/src/lib.rs lines {lo}-{hi} against {props}', flush=True)
    surv = und = nc = 0
    with cf.ProcessPoolExecutor(max_workers=jobs) as ex:
        for desc, res in ex.map(run_one, work):
            if res is None:
                nc += 1
                continue
            codes = set(res.values())
            if codes == {0}:
                surv += 1
                print('SURVIVES ', desc, flush=True)
            elif 1 not in codes:
                und += 1
                print('UNDECIDED', desc, res, flush=True)
    print(f'done: {len(work)} mutants, {nc} do not compile, {surv} survive, {und} undecided (exit 2), {len(work) - nc - surv - und} caught')


if __name__ == '__main__':
    main()
