#!/bin/sh
# usage: tools/try_wt.sh <worktree> <property> : quick-try every seed of a sub-agent worktree against all checks (scratch copies)
wt=$1; p=$2
names=""
for d in $wt/_seed/*/; do
  n=$(basename $d)
  [ -f $d/patch.diff ] || continue
  mkdir -p /verif/seeded/try-$p-$n
  cp $d/patch.diff /verif/seeded/try-$p-$n/
  echo "{\"breaks\": [\"$p\"]}" > /verif/seeded/try-$p-$n/meta.json
  names="$names try-$p-$n"
done
cd /verif && python3 tools/seedtest.py $names --all-props 2>&1 | cut -c1-360
