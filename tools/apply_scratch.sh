#!/bin/sh
# usage: tools/apply_scratch.sh <patch.diff> -> prints the path of a scratch copy of the analysed parts of /repo with the patch applied
d=$(mktemp -d /tmp/pi2scratch-XXXXXX)
mkdir -p $d/generation/src $d/rust $d/generation/mm-benchmarks
cp -r /repo/generation/src/proof_generation $d/generation/src/
cp -r /repo/rust/src $d/rust/
cp -r /repo/docs $d/ 2>/dev/null
cp /repo/generation/mm-benchmarks/*.mm $d/generation/mm-benchmarks/
patch -p1 -s -f -d $d -i "$1" >/dev/null 2>&1
echo $d
