#!/usr/bin/env python3
"""print a function as the rules read it (after the load-time normal forms): tools/showfn.py <module> <func> [needle] (PI2_REPO honoured)"""
import ast, sys, os
sys.path.insert(0, os.path.dirname(os.path.dirname(os.path.abspath(__file__))))
from sa.core.pyfacts import PyRepo
py = PyRepo.get()
mod, fn = sys.argv[1], sys.argv[2]
if mod == 'metamath.translate' and fn == 'exec_proof':
    from sa.rules import c16
    f = c16.replay_function(py)
else:
    f = py.function(mod, fn)
src = ast.unparse(f)
if len(sys.argv) > 3:
    i = src.find(sys.argv[3])
    print(src[max(0, i - 300):i + 2500])
else:
    print(src)
