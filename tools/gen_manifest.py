#!/usr/bin/env python3
"""Regenerates /verif/MANIFEST.json from the table below (kept next to the checks so the two stay in sync)."""
import json
import os

HERE = os.path.dirname(os.path.dirname(os.path.abspath(__file__)))

CHECKS = {
    # id: (level, technique, text, note, design_ref)
}

NOT_APPLICABLE = {
}


def load_table():
    import importlib.util
    spec = importlib.util.spec_from_file_location('manifest_table', os.path.join(HERE, 'tools', 'manifest_table.py'))
    mod = importlib.util.module_from_spec(spec)
    spec.loader.exec_module(mod)
    return mod.CHECKS


def main():
    checks = load_table()
    props = [json.loads(l) for l in open(os.path.join(HERE, 'properties.jsonl'))]
    out_checks = []
    na = []
    for p in props:
        pid = p['id']
        if pid in checks:
            c = checks[pid]
            out_checks.append({
                'property_id': pid,
                'quick_cmd': f'./check {pid} --tier quick',
                'thorough_cmd': f'./check {pid} --tier thorough',
                'evidence_file': f'/verif/evidence/{pid}.json',
                'replay_cmd_template': f'./check {pid} --replay {{path}}',
                'engine': 'sa',
                'level_claimed': {'category': c['level'], 'text': c['text'], 'design_ref': c['design_ref']},
                'level_note': c['note'],
                'technique': c['technique'],
            })
        else:
            na.append({'property_id': pid, 'reason': NOT_APPLICABLE.get(
                pid, 'no check is registered yet for this property in this revision (under construction); nothing is claimed')})
    m = {
        'version': 1,
        'setup_cmd': 'true',
        'hooks': {
            'guard': 'PI2_VERIF',
            'enable': 'none needed: the checks are static, they read the working tree of /repo as it is; no hook exists in /repo',
            'baseline_off_cmd': 'cd /repo && /venv/bin/python -m pytest -ra -q -p no:cacheprovider --timeout=900 --continue-on-collection-errors',
            'source_commits': [],
            'add_only': True,
        },
        'engines': [{
            'name': 'sa', 'path': 'sa/',
            'serves_properties': [c['property_id'] for c in out_checks],
            'kind_free_text': 'stdlib-only static analyser: Python ast (symbolic path evaluation, class/call facts) and rustc MIR '
                              '(symbolic path evaluation of match arms), decision-function comparison by exhaustive valuation, '
                              'cross-language table extraction; nothing under /repo is imported or executed',
        }],
        'checks': out_checks,
        'notes': 'Static analysis only (DESIGN.md). Exit 0 = all obligations hold or only listed known findings; 1 = VIOLATION; '
                 '2 = ANALYSIS-ERROR (the analyser could not decide; never reported as a violation). '
                 'known_findings.json lists recorded findings and fixed: entries.',
        'not_applicable': na,
    }
    with open(os.path.join(HERE, 'MANIFEST.json'), 'w') as f:
        json.dump(m, f, indent=1)
        f.write('\n')
    print(f'{len(out_checks)} checks, {len(na)} not applicable')


if __name__ == '__main__':
    main()
