#!/bin/sh
# usage: tools/try_twins2.sh <worktree> <tag> : like try_twins.sh for worktrees named /tmp/wtS-* (same layout)
exec /verif/tools/try_twins.sh "$@"
