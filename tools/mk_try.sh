#!/bin/sh
# usage: tools/mk_try.sh : (re)create seeded/try-twin-<Cxx>-<name>/ for every refactoring patch in /tmp/wtR-*/_refactor (not committed: delete before committing)
for wt in /tmp/wtR-*; do
  p=$(basename $wt | sed 's/wtR-//')
  for d in $wt/_refactor/*/; do
    n=$(basename $d)
    [ -f $d/patch.diff ] || continue
    [ -d /verif/twins/$p-$n ] && continue
    mkdir -p /verif/seeded/try-twin-$p-$n
    cp $d/patch.diff /verif/seeded/try-twin-$p-$n/
    echo "{\"breaks\": []}" > /verif/seeded/try-twin-$p-$n/meta.json
  done
done
ls /verif/seeded | grep -c try-twin
