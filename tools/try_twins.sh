#!/bin/sh
# usage: tools/try_twins.sh <worktree> <tag> : run all checks on every behaviour-preserving refactoring of a sub-agent worktree
# (scratch copies); every check is expected to exit 0.  rc=1 is a false alarm, rc=2 an analysis error.
wt=$1; p=$2
names=""
for d in $wt/_refactor/*/; do
  n=$(basename $d)
  [ -f $d/patch.diff ] || continue
  mkdir -p /verif/seeded/try-twin-$p-$n
  cp $d/patch.diff /verif/seeded/try-twin-$p-$n/
  echo "{\"breaks\": []}" > /verif/seeded/try-twin-$p-$n/meta.json
  names="$names try-twin-$p-$n"
done
cd /verif && python3 tools/seedtest.py $names --all-props 2>&1 | sed 's/^MISSED /SILENT /; s/^CAUGHT /ALARM  /' | cut -c1-420
