#!/usr/bin/env python3
"""Mutation sweep of the REPOSITORY against the checks - a way to find what the rules do not see (it evaluates the analyser, it is
not part of any deciding step): small semantic mutations of one source file (comparison flips, +-1 on integer constants, adjacent
arguments swapped, an effect statement dropped, reversed()/sorted() removed, and/or flipped, +/- flipped, `not` dropped) are each
written to a scratch copy of the analysed parts of /repo and the given checks are run on it.  A mutant on which every check exits 0
SURVIVES; survivors are printed with their diff line for triage by reading (equivalent mutant | outside every property | a hole).

usage: tools/mutsweep.py <repo-relative .py file> <Cnn,Cnn,..> [--func NAME ..] [--jobs N] [--max M]
"""
import ast
import concurrent.futures as cf
import copy
import os
import shutil
import subprocess
import sys
import tempfile

HERE = os.path.dirname(os.path.dirname(os.path.abspath(__file__)))
REPO = '/repo'


def mutants(tree: ast.Module, funcs):
    """yield (description, mutated tree)"""
    targets = []
    for n in ast.walk(tree):
        if isinstance(n, (ast.FunctionDef, ast.AsyncFunctionDef)) and (not funcs or n.name in funcs):
            targets.append(n)
    seen = set()
    sites = []
    for f in targets:
        for n in ast.walk(f):
            if id(n) in seen:
                continue
            seen.add(id(n))
            sites.append((f.name, n))
    flips = {ast.Lt: ast.LtE, ast.LtE: ast.Lt, ast.Gt: ast.GtE, ast.GtE: ast.Gt, ast.Eq: ast.NotEq, ast.NotEq: ast.Eq,
             ast.In: ast.NotIn, ast.NotIn: ast.In, ast.Is: ast.IsNot, ast.IsNot: ast.Is}
    index = {id(n): i for i, n in enumerate(ast.walk(tree))}

    def clone_with(edit, node):
        t = copy.deepcopy(tree)
        target = next(m for i, m in enumerate(ast.walk(t)) if i == index[id(node)])
        if edit(target, t) is False:
            return None
        return ast.fix_missing_locations(t)

    def parent_block(t, target):
        for holder in ast.walk(t):
            for fld in ('body', 'orelse', 'finalbody'):
                blk = getattr(holder, fld, None)
                if isinstance(blk, list) and any(x is target for x in blk):
                    return blk
        return None

    for fname, n in sites:
        where = f'{fname}:{getattr(n, "lineno", "?")}'
        if isinstance(n, ast.Compare) and len(n.ops) == 1 and type(n.ops[0]) in flips:
            def e(m, _t):
                m.ops = [flips[type(m.ops[0])]()]
            yield f'{where} compare-flip `{ast.unparse(n)[:60]}`', clone_with(e, n)
        if isinstance(n, ast.Constant) and isinstance(n.value, int) and not isinstance(n.value, bool) and abs(n.value) <= 64:
            for d in (1, -1):
                def e(m, _t, d=d):
                    m.value = m.value + d
                yield f'{where} const {n.value}->{n.value + d}', clone_with(e, n)
        if isinstance(n, ast.Call) and len(n.args) >= 2 and not any(isinstance(a, ast.Starred) for a in n.args):
            for i in range(len(n.args) - 1):
                if ast.unparse(n.args[i]) != ast.unparse(n.args[i + 1]):
                    def e(m, _t, i=i):
                        m.args[i], m.args[i + 1] = m.args[i + 1], m.args[i]
                    yield f'{where} swap-args {i},{i + 1} `{ast.unparse(n)[:60]}`', clone_with(e, n)
        if isinstance(n, ast.Call) and isinstance(n.func, ast.Name) and n.func.id in ('reversed', 'sorted') and len(n.args) == 1:
            def e(m, _t):
                m.func = ast.Name(id='list', ctx=ast.Load())
                m.keywords = []
            yield f'{where} drop-{n.func.id} `{ast.unparse(n)[:60]}`', clone_with(e, n)
        if isinstance(n, ast.BoolOp):
            def e(m, _t):
                m.op = ast.Or() if isinstance(m.op, ast.And) else ast.And()
            yield f'{where} and/or `{ast.unparse(n)[:60]}`', clone_with(e, n)
        if isinstance(n, ast.BinOp) and isinstance(n.op, (ast.Add, ast.Sub)):
            def e(m, _t):
                m.op = ast.Sub() if isinstance(m.op, ast.Add) else ast.Add()
            yield f'{where} +/- `{ast.unparse(n)[:60]}`', clone_with(e, n)
        if isinstance(n, ast.UnaryOp) and isinstance(n.op, ast.Not):
            def e(m, t):
                for holder in ast.walk(t):
                    for fld, val in ast.iter_fields(holder):
                        if val is m:
                            setattr(holder, fld, m.operand)
                            return True
                        if isinstance(val, list):
                            for k, x in enumerate(val):
                                if x is m:
                                    val[k] = m.operand
                                    return True
                return False
            yield f'{where} drop-not `{ast.unparse(n)[:60]}`', clone_with(e, n)
        if isinstance(n, (ast.Expr, ast.AugAssign)) and not (isinstance(n, ast.Expr) and isinstance(n.value, ast.Constant)):
            def e(m, t):
                blk = parent_block(t, m)
                if blk is None:
                    return False
                k = next(i for i, x in enumerate(blk) if x is m)
                blk[k] = ast.copy_location(ast.Pass(), m)
            yield f'{where} drop-stmt `{ast.unparse(n)[:60]}`', clone_with(e, n)


def scratch(rel, text):
    d = tempfile.mkdtemp(prefix='pi2mut-')
    os.makedirs(f'{d}/generation/src', exist_ok=True)
    shutil.copytree(f'{REPO}/generation/src/proof_generation', f'{d}/generation/src/proof_generation',
                    ignore=shutil.ignore_patterns('__pycache__', 'tests'))
    os.makedirs(f'{d}/rust', exist_ok=True)
    shutil.copytree(f'{REPO}/rust/src', f'{d}/rust/src')
    if os.path.isdir(f'{REPO}/docs'):
        shutil.copytree(f'{REPO}/docs', f'{d}/docs')
    os.makedirs(f'{d}/generation/mm-benchmarks', exist_ok=True)
    for f in os.listdir(f'{REPO}/generation/mm-benchmarks'):
        if f.endswith('.mm'):
            shutil.copy(f'{REPO}/generation/mm-benchmarks/{f}', f'{d}/generation/mm-benchmarks/')
    open(f'{d}/{rel}', 'w').write(text)
    return d


def run_one(args):
    desc, rel, text, props = args
    d = scratch(rel, text)
    try:
        env = dict(os.environ, PI2_REPO=d, PI2_EVIDENCE_DIR=f'{d}/_ev', PI2_QUIET='1')
        res = {}
        for p in props:
            r = subprocess.run([sys.executable, '-m', 'sa.main', p], cwd=HERE, env=env, capture_output=True, text=True, timeout=900)
            res[p] = r.returncode
            if r.returncode != 0:
                break                            # caught (or undecided): enough
        return desc, res
    finally:
        shutil.rmtree(d, ignore_errors=True)


def main():
    rel = sys.argv[1]
    props = sys.argv[2].split(',')
    funcs, jobs, mx = [], 12, 10 ** 9
    a = sys.argv[3:]
    while a:
        if a[0] == '--func':
            funcs.append(a[1])
        elif a[0] == '--jobs':
            jobs = int(a[1])
        elif a[0] == '--max':
            mx = int(a[1])
        a = a[2:]
    src = open(f'{REPO}/{rel}').read()
    tree = ast.parse(src)
    work = []
    base = ast.unparse(tree)
    for desc, t in mutants(tree, funcs):
        if t is None:
            continue
        txt = ast.unparse(t)
        if txt == base:
            continue
        try:
            compile(txt, rel, 'exec')
        except SyntaxError:
            continue
        work.append((desc, rel, txt, props))
        if len(work) >= mx:
            break
    print(f'{len(work)} mutants of {rel} against {props}', flush=True)
    surv = und = 0
    with cf.ProcessPoolExecutor(max_workers=jobs) as ex:
        for desc, res in ex.map(run_one, work):
            codes = set(res.values())
            if codes == {0}:
                surv += 1
                print('SURVIVES ', desc, flush=True)
            elif 1 not in codes:
                und += 1
                print('UNDECIDED', desc, res, flush=True)
    print(f'done: {len(work)} mutants, {surv} survive, {und} undecided (exit 2), {len(work) - surv - und} caught')


if __name__ == '__main__':
    main()
