#!/usr/bin/env python3
"""Run checks against seeded changes on scratch copies of /repo (never touches /repo).

usage: tools/seedtest.py [seed-dir-name ...] [--props C01,C05] [--jobs N]
For every /verif/seeded/<id>/patch.diff: copy the analysed parts of /repo to a temp dir, apply the patch there,
run `./check <prop>` for each property in meta.json["breaks"] (or --props) with PI2_REPO pointing at the copy,
and report the exit codes.  A seed counts as caught when at least one of its properties exits 1.
"""
import concurrent.futures as cf
import json
import os
import shutil
import subprocess
import sys
import tempfile

HERE = os.path.dirname(os.path.dirname(os.path.abspath(__file__)))
REPO = os.environ.get('PI2_REPO_SRC', '/repo')
PARTS = ['generation/src/proof_generation', 'rust/src', 'docs']


BASE: dict = {}          # property -> (obligations, declined) on the unchanged tree (filled on demand by --all-props / twins)


def baseline(props):
    import re as _re
    for pr in props:
        if pr in BASE:
            continue
        evd = tempfile.mkdtemp(prefix='pi2ev-')
        q = subprocess.run([os.path.join(HERE, 'check'), pr], capture_output=True, text=True, cwd=HERE,
                           env=dict(os.environ, PI2_EVIDENCE_DIR=evd))
        m = _re.search(r'obligations=(\d+) failing=(\d+) known=(\d+) declined=(\d+)', q.stdout)
        if m:
            BASE[pr] = (int(m.group(1)), int(m.group(4)), per_rule(os.path.join(evd, pr + '.json')))
        shutil.rmtree(evd, ignore_errors=True)


def per_rule(path):
    try:
        return json.load(open(path))['coverage'].get('per_rule', {})
    except (OSError, ValueError, KeyError):
        return {}


def _count(v):
    return v.get('obligations', v.get('n', 0)) if isinstance(v, dict) else (v if isinstance(v, int) else 0)


def scratch_copy():
    d = tempfile.mkdtemp(prefix='pi2seed-')
    for part in PARTS:
        src = os.path.join(REPO, part)
        if os.path.isdir(src):
            shutil.copytree(src, os.path.join(d, part), ignore=shutil.ignore_patterns('__pycache__', 'tests'))
    # the Metamath prelude is read from the benchmark databases (C16); the large raw proof archive is not needed
    bm = os.path.join(REPO, 'generation', 'mm-benchmarks')
    if os.path.isdir(bm):
        os.makedirs(os.path.join(d, 'generation', 'mm-benchmarks'), exist_ok=True)
        for fn in os.listdir(bm):
            if fn.endswith('.mm'):
                shutil.copy(os.path.join(bm, fn), os.path.join(d, 'generation', 'mm-benchmarks', fn))
    return d


def run_seed(name, props_override=None, all_props=False):
    sd = os.path.join(HERE, 'seeded', name)
    meta = json.load(open(os.path.join(sd, 'meta.json')))
    props = props_override or meta.get('breaks', [])
    if all_props:
        props = sorted({fn[:-3].upper() for fn in os.listdir(os.path.join(HERE, 'sa', 'rules')) if fn[0] == 'c' and fn[1:-3].isdigit()})
    d = scratch_copy()
    res = {}
    try:
        p = subprocess.run(['patch', '-p1', '-s', '-d', d, '-i', os.path.join(sd, 'patch.diff')], capture_output=True, text=True)
        if p.returncode != 0:
            # patches may touch files outside the copied parts (tests, docs): retry tolerant
            p = subprocess.run(['patch', '-p1', '-s', '-f', '-d', d, '-i', os.path.join(sd, 'patch.diff')], capture_output=True, text=True)
        rej = []
        for root, _dirs, files in os.walk(d):
            rej += [os.path.join(root, f) for f in files if f.endswith('.rej')]
        if rej:
            return name, meta, {'STALE-PATCH': (3, [f'patch does not apply to the current tree: {os.path.relpath(r, d)}' for r in rej])}
        env = dict(os.environ, PI2_REPO=d, PI2_EVIDENCE_DIR=os.path.join(d, '_ev'))
        for pr in props:
            q = subprocess.run([os.path.join(HERE, 'check'), pr], capture_output=True, text=True, env=env, cwd=HERE)
            lines = [l for l in q.stdout.splitlines() if 'rule ' in l or l.startswith('ANALYSIS-ERROR')]
            import re as _re
            m = _re.search(r'obligations=(\d+) failing=(\d+) known=(\d+) declined=(\d+)', q.stdout)
            if m and BASE.get(pr) and (int(m.group(1)) < BASE[pr][0] or int(m.group(4)) > BASE[pr][1]):
                now = per_rule(os.path.join(d, '_ev', pr + '.json'))
                diff = {k: (_count(v), _count(now.get(k, 0))) for k, v in BASE[pr][2].items() if _count(now.get(k, 0)) < _count(v)}
                lines.append(f'WEAKER: obligations {BASE[pr][0]} -> {m.group(1)}, declined {BASE[pr][1]} -> {m.group(4)}; per rule {diff}')
            res[pr] = (q.returncode, lines[:4])
    finally:
        shutil.rmtree(d, ignore_errors=True)
    return name, meta, res


def main(argv):
    names, props, jobs, allp = [], None, 16, False
    i = 0
    while i < len(argv):
        if argv[i] == '--props':
            props = argv[i + 1].split(',')
            i += 2
        elif argv[i] == '--jobs':
            jobs = int(argv[i + 1])
            i += 2
        elif argv[i] == '--all-props':
            allp = True
            i += 1
        else:
            names.append(argv[i])
            i += 1
    if not names:
        names = sorted(n for n in os.listdir(os.path.join(HERE, 'seeded')) if os.path.exists(os.path.join(HERE, 'seeded', n, 'patch.diff')))
    missed = 0
    if any(n.startswith('try-twin-') for n in names):
        allprops = sorted({fn[:-3].upper() for fn in os.listdir(os.path.join(HERE, 'sa', 'rules')) if fn[0] == 'c' and fn[1:-3].isdigit()})
        with cf.ThreadPoolExecutor(max_workers=jobs) as ex:
            list(ex.map(lambda pr: baseline([pr]), props or allprops))
    with cf.ThreadPoolExecutor(max_workers=jobs) as ex:
        for name, meta, res in ex.map(lambda n: run_seed(n, props, allp), names):
            caught = [p for p, (rc, _l) in res.items() if rc == 1]
            errs = [p for p, (rc, _l) in res.items() if rc == 2]
            status = 'CAUGHT' if caught else ('ERROR' if errs else 'MISSED')
            if not caught:
                missed += 1
            print(f'{status:7s} {name:40s} ' + ' '.join(f'{p}={rc}' for p, (rc, _l) in res.items()))
            for p, (rc, lines) in res.items():
                for l in lines[:2]:
                    print(f'          {p}: {l.strip()[:220]}')
    return 1 if missed else 0


if __name__ == '__main__':
    sys.exit(main(sys.argv[1:]))
