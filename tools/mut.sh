#!/bin/sh
# usage: tools/mut.sh <patch.diff> <Cnn> <file (repo-relative)> <python-expr old> <python-expr new>
# applies the twin patch to a scratch copy, replaces old by new (exactly once) in file, runs ./check Cnn, prints exit + first findings
d=$(tools/apply_scratch.sh "$1")
python3 - "$d/$3" "$4" "$5" <<'P' || { rm -rf $d; exit 9; }
import sys
p, old, new = sys.argv[1:4]
s = open(p).read()
if s.count(old) != 1:
    print('MUT: old text occurs', s.count(old), 'times'); sys.exit(1)
open(p, 'w').write(s.replace(old, new))
import ast; ast.parse(open(p).read())
P
PI2_REPO=$d PI2_EVIDENCE_DIR=$d/_ev ./check $2 > $d/out.txt 2>&1; rc=$?
echo "exit=$rc"; grep -E "VIOLATION|ANALYSIS-ERROR|rule " $d/out.txt | cut -c1-330 | head -${6:-4}
rm -rf $d
