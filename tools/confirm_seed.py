#!/usr/bin/env python3
"""Confirm a seeded change in a scratch git worktree of /repo (never in /repo itself):
  demo passes on the unchanged tree, fails with the patch; the pinned suite gives the baseline result with the patch.
usage: tools/confirm_seed.py <seed-source-dir> <property> <name> [--skip-suite]
On success the seed is copied to /verif/seeded/<property>-<name>/ with a meta.json describing what was run."""
import json
import os
import re
import shutil
import subprocess
import sys
import tempfile

HERE = os.path.dirname(os.path.dirname(os.path.abspath(__file__)))


def sh(cmd, cwd, timeout=1500):
    p = subprocess.run(cmd, shell=True, cwd=cwd, capture_output=True, text=True, timeout=timeout)
    return p.returncode, (p.stdout + p.stderr)


def run_demo(wt, sdir_rel):
    d = os.path.join(wt, sdir_rel)
    if os.path.exists(os.path.join(d, 'demo.sh')):
        return sh(f'sh {sdir_rel}/demo.sh', wt)
    if os.path.exists(os.path.join(d, 'demo.py')):
        return sh(f'cd generation/src && /venv/bin/python ../../{sdir_rel}/demo.py', wt)
    return 99, 'no demo found'


def main():
    src, prop, name = sys.argv[1:4]
    skip_suite = '--skip-suite' in sys.argv
    wt = tempfile.mkdtemp(prefix=f'pi2confirm-{prop}-')
    os.rmdir(wt)
    rev = os.environ.get('PI2_CONFIRM_REV', 'HEAD')
    rc, out = sh(f'git -C /repo worktree add -q --detach {wt} {rev}', '/')
    assert rc == 0, out
    res = {'property': prop, 'name': name}
    try:
        rel = f'_seed/{name}'
        shutil.copytree(src, os.path.join(wt, rel))
        rc0, out0 = run_demo(wt, rel)
        res['demo_unchanged_rc'] = rc0
        rc, out = sh(f'git apply {rel}/patch.diff', wt)
        res['patch_applies'] = rc == 0
        if rc != 0:
            res['error'] = out[-400:]
        else:
            files = re.findall(r'^\+\+\+ b/(\S+)', open(os.path.join(wt, rel, 'patch.diff')).read(), re.M)
            res['files'] = files
            rc1, out1 = run_demo(wt, rel)
            res['demo_patched_rc'] = rc1
            res['demo_patched_tail'] = out1.strip().splitlines()[-3:]
            if any(f.startswith('rust/') for f in files):
                rcc, outc = sh('RUSTUP_TOOLCHAIN=nightly rustc --edition 2021 --crate-type lib --crate-name checker -o /dev/null --emit=metadata rust/src/lib.rs', wt)
                res['rust_compiles_with_deny_warnings'] = rcc == 0
            only_rust = all(f.startswith('rust/') for f in files)
            if skip_suite:
                res['suite'] = 'skipped on request'
            else:
                rcs, outs = sh('/venv/bin/python -m pytest -q -p no:cacheprovider --timeout=900 --continue-on-collection-errors 2>&1 | tail -3', wt, timeout=2400)
                m = re.search(r'(\d+) failed, (\d+) passed, (\d+) errors', outs)
                res['suite'] = m.group(0) if m else outs[-200:]
            sh('git checkout -- .', wt)
        ok = res.get('patch_applies') and res['demo_unchanged_rc'] == 0 and res.get('demo_patched_rc', 0) != 0 and \
            (skip_suite or res.get('suite') == '1 failed, 188 passed, 4 errors')
        res['confirmed'] = bool(ok)
        if ok:
            dst = os.path.join(HERE, 'seeded', f'{prop}-{name}')
            if os.path.exists(dst):
                shutil.rmtree(dst)
            shutil.copytree(src, dst)
            notes = ''
            if os.path.exists(os.path.join(src, 'notes.md')):
                notes = open(os.path.join(src, 'notes.md')).read()
            meta = {'breaks': [prop], 'origin': 'sub-agent given only the property text and a scratch worktree',
                    'needs': (re.search(r'(?is)(what (it|is) need(s|ed).*?)(\n\n|\Z)', notes).group(1)[:600] if re.search(r'(?is)what (it|is) need', notes) else 'see notes.md'),
                    'files': res.get('files'),
                    'confirmed': {'how': 'tools/confirm_seed.py in a scratch git worktree of /repo at ' + os.environ.get('PI2_CONFIRM_REV', 'HEAD') + ' (removed afterwards)',
                                  'demo_unchanged_exit': res['demo_unchanged_rc'], 'demo_patched_exit': res['demo_patched_rc'],
                                  'demo_patched_output_tail': res.get('demo_patched_tail'), 'suite_with_patch': res.get('suite'),
                                  'rust_compiles': res.get('rust_compiles_with_deny_warnings')}}
            json.dump(meta, open(os.path.join(dst, 'meta.json'), 'w'), indent=1)
    finally:
        sh(f'git -C /repo worktree remove --force {wt}', '/')
        shutil.rmtree(wt, ignore_errors=True)
    print(json.dumps(res))


if __name__ == '__main__':
    main()
