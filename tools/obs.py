#!/usr/bin/env python3
"""usage: [PI2_REPO=<dir>] tools/obs.py Cnn [rule]  -> every obligation (rule, construct, verdict) of one check, for comparing trees"""
import importlib, os, sys
sys.path.insert(0, os.path.dirname(os.path.dirname(os.path.abspath(__file__))))
from sa.core.report import Ctx
prop = sys.argv[1]
mod = importlib.import_module(f'sa.rules.{prop.lower()}')
ctx = Ctx(prop, 'quick') if 'tier' in Ctx.__init__.__code__.co_varnames else Ctx(prop)
try:
    mod.run(ctx)
except Exception as ex:  # noqa: BLE001
    print('ERROR', ex)
for o in ctx.obligations:
    if len(sys.argv) < 3 or o['rule'].startswith(sys.argv[2]):
        print(o['rule'], '|', o['construct'], '|', o['ok'])
