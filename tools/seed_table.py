#!/usr/bin/env python3
"""Run every check against every seeded change (scratch copies, never /repo) and write seeded/TABLE.md:
which checks catch which change, with the rule that fires for the property the change was written against."""
import concurrent.futures as cf
import json
import os
import re
import sys

sys.path.insert(0, os.path.dirname(os.path.abspath(__file__)))
import seedtest  # noqa: E402

HERE = seedtest.HERE


def main():
    names = sorted(n for n in os.listdir(os.path.join(HERE, 'seeded')) if os.path.exists(os.path.join(HERE, 'seeded', n, 'patch.diff')))
    rows = []
    with cf.ThreadPoolExecutor(max_workers=16) as ex:
        for name, meta, res in ex.map(lambda n: seedtest.run_seed(n, None, True), names):
            own = meta.get('breaks', [])
            undecided = bool(meta.get('not_decided'))
            caught = sorted(p for p, (rc, _l) in res.items() if rc == 1)
            errs = sorted(p for p, (rc, _l) in res.items() if rc == 2)
            rule = ''
            for p in own:
                if p in res and res[p][0] == 1 and res[p][1]:
                    m = re.search(r'rule (\S+) instance (\S+)', res[p][1][0])
                    if m:
                        rule = f'{m.group(1)} @ {m.group(2).rstrip(":")}'
                        break
            rows.append((name, own, caught, errs, rule if not undecided else 'NOT DECIDED (out of reach, see meta.json)'))
    out = ['| seeded change | written against | caught by | rule firing in its own check |', '|---|---|---|---|']
    bad = 0
    for name, own, caught, errs, rule in rows:
        ok = all(p in caught for p in own) or 'NOT DECIDED' in rule
        bad += 0 if ok else 1
        out.append(f'| {name} | {" ".join(own)} | {" ".join(caught) or "-"}{(" (analysis error: " + " ".join(errs) + ")") if errs else ""} | {rule[:90] or ("MISSED" if not ok else "")} |')
    open(os.path.join(HERE, 'seeded', 'TABLE.md'), 'w').write('\n'.join(out) + '\n')
    print('\n'.join(out))
    print(f'{len(rows)} seeded changes, {bad} not caught by their own property')
    return 1 if bad else 0


if __name__ == '__main__':
    sys.exit(main())
