"""Per-property MANIFEST entries (level, technique, claim text, trusted base)."""

CHECKS = {
    'C06': {
        'level': 'proof',
        'technique': 'per-arm truth-table implication (MIR / ast decision functions vs. soundness table) + structural induction',
        'text': 'Proof by structural induction, discharged arm by arm: every match arm of the Rust e_fresh/s_fresh/positive/negative '
                '(40 arms, read from rustc MIR) and every evar_is_free of the 11 Python pattern classes is extracted as a decision '
                'function and shown, on all valuations of its atoms, to imply the weakest sound condition of its constructor '
                '(including ESubst/SSubst/MetaVar and the notation node). This covers all meta-patterns, variables and '
                'constraint-respecting instantiations, which sampling cannot; what is trusted is the soundness table and the induction.',
        'note': 'Trusted: sa/spec/judgements.py (table 2.1 of DESIGN.md) and the induction argument; rustc MIR and python ast as faithful '
                'renderings of the sources; constraints are enforced at instantiation and well-formedness at construction (decided under C01).',
        'design_ref': 'DESIGN.md section 3, C06; section 2.1',
    },
    'C01': {
        'level': 'other',
        'technique': 'MIR path analysis: minting confinement, guard-on-every-path, capture-guard rule, constraint-check pairing, per-arm soundness tables',
        'text': 'Decides the structural obligations of the rule-induction proof of soundness on the Rust checker, on all paths of rustc MIR: '
                'Proved terms are minted only in rule arms with the rule conclusion as payload; every side condition (MP antecedent, '
                'Generalization freshness, claim equality, well-formedness of Mu/ESubst/SSubst) holds on every path to the push; substitution '
                'never descends under a binder without the capture check of that binder sort; a metavariable is replaced only after its '
                'constraint lists were checked with the judgement of the same name; axiom constants equal the schemas; judgement arms are '
                'sound. Validity in finite models is not evaluated - that quantifier is out of reach of a static argument; what is decided '
                'is every code-level way the induction can fail. (S3b) the structural arms of apply_esubst / apply_ssubst (leaves, connectives, binders: shadowing and capture) are the textbook substitution; a refusal where the table substitutes is accepted (rejecting more is sound), the deferral arms are left to C05 / C11.'
                ' The MetaVar arm of apply_esubst / apply_ssubst may drop a pending substitution only where the variable of that sort is declared fresh (sound direction; keeping it pending is always accepted).',
        'note': 'Trusted: soundness of the matching-logic proof system and the induction; spec tables sa/spec/{axioms,machine,judgements,'
                'substitution}.py; rustc MIR as rendering of lib.rs. Level "other": necessary structural obligations, not a semantic proof.',
        'design_ref': 'DESIGN.md section 3, C01',
    },
    'C05': {
        'level': 'other',
        'technique': 'MIR decision functions equivalent to the transcribed document; opcode-row table comparison; must-be-checked reads',
        'text': 'Arm-by-arm conformance with the documented machine: 46 judgement/well-formedness arms are equivalent on all valuations to '
                'the pseudocode of docs/proof-language.md; each of the 24 implemented opcodes has exactly the documented operand reads, '
                'pops (order and Term kind), side conditions and pushes; unimplemented opcodes and unknown bytes panic; every operand / '
                'stack / claim read has a rejecting branch and the instruction iterator is advanced only by next(); no unsafe; verify runs '
                'the three phases over one state and accepts only with no claim left; substitution/instantiation arms equal the textbook '
                'table. Any per-arm deviation changes acceptance on some byte string, which sampling finds only by luck. Final-state '
                'equality on concrete inputs is not observed.',
        'note': 'Trusted: the transcription of the document in sa/spec/ (the prose is not parsed), rustc MIR, std semantics of '
                'Option::expect/unwrap/?/Vec::pop.',
        'design_ref': 'DESIGN.md section 3, C05',
    },
    'C02': {
        'level': 'other',
        'technique': 'cross-language table extraction (Python ast paths vs rustc MIR paths): opcode bytes, operand layout, slot/operand wiring, claim order, axioms',
        'text': 'Decides the generator/checker protocol agreement that acceptance of every generated module depends on: each of the 24 '
                'interpreter calls writes an opcode whose byte, operand layout and meaning (which stack slot / operand feeds which '
                'constructor field or rule premise, side conditions of MP and Generalization, id/plug pairing of Instantiate) are the same '
                'in the Serializing/Stateful/Basic interpreter chain and in the arm of execute_instructions; claims are consumed LIFO iff '
                'published reversed; axiom schemas agree three-way; phases run in order over one interpreter. Necessary conditions only: '
                'that a concrete module is accepted is an execution and is not decided. Also: the memoiser\'s slot budget is 256 - len(memory) with one slot per suggestion (one-byte Load operand); generator and checker compute Instantiate / resolved substitutions by the same textbook table (C11\'s Python half and C05\'s Rust half). Whenever the generator\'s freshness judgement says fresh the documented one does too, per constructor (judgement-agreement); the substitution table has ONE column for both languages (capture checks, shadowing, identity on a metavariable declared fresh): two genuine disagreements were repaired (9148c8c, 44ab5e8), the missing set-variable capture check of the generator\'s Mu arms is a known finding.'
                ' The checker\'s four judgements and well_formed agree with the documented ones arm by arm (shared with C05): a stricter judgement refuses generated modules.'
                ' The wiring rows identify a symbol with the number written for it; the one-symbol-table rules of C03 that justify this are composed in. Helper objects the serializer keeps (`self._encoder.feed(..)`) are read through.',
        'note': 'Trusted: python ast, rustc MIR, spec/axioms.py. Symbols are identified with their serializer numbers (injectivity: C03).',
        'design_ref': 'DESIGN.md section 3, C02',
    },
    'C04': {
        'level': 'other',
        'technique': 'effect-table extraction (StatefulInterpreter ast paths vs MIR opcode arms) and comparison; slice-guard and load-address rules',
        'text': 'For every interpreter call the tracker effect (number and Term kind of pops, pushes, memory appends, claim consumption) '
                'equals the effect of the opcode written for it, per phase for Publish; phase changes reset the same state on both sides; '
                'memory grows at the same events; the Load operand is memory.index of the term handed to the tracker; -len(x) slices are '
                'guarded. Four genuine deviations of publish_* are recorded as known findings (the pinned suite asserts them). '
                'Equality of tracked and real state on concrete traces is not observed. publish_proof compares the conclusion with the HEAD of the claim list and drops exactly it (claim-queue); the generator\'s freshness judgement implies the documented one (shared with C02).'
                ' arity-enforced: operands are never compared with the tracked stack through zip (truncation accepts a short stack). The two substitution tables are composed (the tracker computes Instantiate results with the generator\'s substitution).'
                " 'Modulo the numbering of symbols' is sound only for ONE injective symbol table for the three streams: C03's one-symbol-table rules are composed in (also when the table lives on a helper object that must not be re-created at a phase change)."
                ' Pop / Save / Publish act on the top: the tracker accepts only when the named term equals stack[-1]; each publish call is accepted only in its phase; phase changes go gamma -> claim -> proof and every override passes them on. Since round 8: after a phase change the IO layer writes to the stream given for that phase (value of self.out at return of into_claim_phase / into_proof_phase).',
        'note': 'Trusted: python ast, rustc MIR. Known findings in known_findings.json (publish_* leave the term on the tracked stack; claims not queued).',
        'design_ref': 'DESIGN.md section 3, C04',
    },
    'C14': {
        'level': 'other',
        'technique': 'writer/reader table extraction (serializer vs deserializer ast) and comparison',
        'text': 'Writer/reader agreement: every opcode the serializer can write has a decoder branch with the same operand layout that '
                'replays the call which writes that opcode, reading distinct stack slots at the positions the tracker binds; Publish is '
                'replayed per phase; the decode loop ends only at end of input; unknown bytes raise. Five genuine gaps are recorded as '
                'known findings. Equality of the replayed state on concrete modules is not observed. writer-lossless: in every encoding case each argument of the call is written, tied to a stack slot by the tracker, or forced to its default by the condition selecting the case (24 cases).'
                ' The opcode dispatched on is Instruction(<the byte the loop condition read>), unchanged; the k-th operand read is handed to the parameter the k-th written operand comes from (reader-order: a swap of two equally shaped operands replays another term).'
                ' Reader slots are strict (a parameter the tracker compares with stack[-k] must be that slot); Instantiate takes the n entries directly below the top keyed by the n ids read; Load replays memory[<operand>]; the claim published / the theorem compared is the top; the cursor starts at 0; the list reader returns what it read. Since wave 6 the replayed call must supply every parameter of the interpreter method, and operand reads are counted per execution so that readers binding each list by its own statement are decided by the operand-order rule. Since round 8: table-generated serializer methods are read with the parameter list of the method they override; one that takes operand bytes from positional arguments only while forwarding keywords is reported.',
        'note': 'Trusted: python ast. Known findings: no decoder branch for Quantifier/Generalization, constraint element types, Publish in gamma/proof phases.',
        'design_ref': 'DESIGN.md section 3, C14',
    },
    'C10': {
        'level': 'proof',
        'technique': 'modular schema type-checking of the lemma library by symbolic evaluation of method bodies (ast), with confinement rules',
        'text': 'Type-checks every documented lemma of Propositional and Tautology (82 on the pinned tree) against its docstring schema: '
                'the body is evaluated on fresh constants standing for arbitrary argument patterns and premise proofs of the documented '
                'shape; callees contribute only their declared schema; modus ponens, instantiation, prop1-3 and declared axioms have '
                'built-in rules; notation is expanded from pattern.py. By induction over the call graph each checked lemma returns '
                'exactly its schema for all arguments and its internal assertions and rule applications cannot fail, using only the '
                'allowed primitives. The substitution helper every lemma is typed through (_build_subst) is checked against the reading '
                'the typing gives it: position i maps to the i-th pattern and only an argument structurally equal to MetaVar(i) is '
                'dropped; the resolution front-end folds trivial-clause proofs in the nesting of the conjunction it advertises. '
                'The pinned suite replays eight sample proofs; a lemma wrong off that path is invisible to it. '
                'Eighteen methods (run-time matching, loops, prose docstrings) are declined by name in the evidence. conjunction_implies_nth is typed against its advertised contract as an inductive step driven by the count l (a last conjunct that is itself a conjunction must not be taken apart). ac_move_to_front, simplify_clause, merge_clauses and reduce_n_or_duplicates_at_front (recursion over run-time position lists) are not decided.'
                ' The stage contracts of propag_neg / to_cnf / to_clauses / resolution (shared with C09) are composed: those functions return proofs with advertised conclusions too.',
        'note': 'Trusted: the docstring grammar and binding convention, the built-in primitive rules, spec/axioms.py, python ast; that the '
                'replayed conclusion equals the static one is the ProofThunk assertion (C08).',
        'design_ref': 'DESIGN.md section 3, C10',
    },
    'C07': {
        'level': 'other',
        'technique': 'symbolic path evaluation of the rule methods (ast): conclusion shape, guard-on-every-path, override-chain forwarding',
        'text': 'modus_ponens, exists_generalization and instantiate of BasicInterpreter are evaluated symbolically: every returning path '
                'yields exactly the documented conclusion and has passed a raising destructuring of the premise as an implication and the '
                'side condition of the rule, so inapplicable premises are refused on all paths (not on sampled ones); all 15 overrides in '
                'the interpreter classes pass the same arguments on exactly once and return that value; Pattern.extract/unwrap raise on a '
                'non-implication; ProofExp repeats the antecedent check. The freshness judgement is C06. The conclusion of schema instantiation is `conclusion.instantiate(delta)`, so instantiate / apply_esubst / apply_ssubst of every pattern class are compared with the textbook table here too (C11\'s Python half), including `metavars().isdisjoint(delta)` shortcuts read as \'child unchanged\'.'
                " The freshness judgement is exact: per constructor it answers fresh whenever the documented judgement does (with C06's soundness: equality).",
        'note': 'Trusted: python ast; assert statements enabled; evar_is_free soundness is C06.',
        'design_ref': 'DESIGN.md section 3, C07',
    },
    'C08': {
        'level': 'other',
        'technique': 'who-may-construct table, forwarding-shape rule over the transformer classes, static-vs-dynamic conclusion comparison',
        'text': 'Decides the structural facts that make all interpreters agree: Proved is constructed only at 11 listed sites; '
                'InterpreterTransformer forwards each of the 24 interface methods (and both phase transitions) once, with the same '
                'arguments, returning the forwarded value; the instantiation optimiser returns BasicInterpreter\'s value; ProofThunk '
                'returns only after dynamic == static conclusion; each ProofExp primitive advertises the term BasicInterpreter computes; '
                'sibling empty-map guards agree. Joint behaviour on concrete expressions is not observed. Interpreter.pattern interprets the operands of each constructor in the order of the stack slots the tracking interpreters check (walk-order, 8 arms); the tracking interpreters compare terms with ==, never by identity. Every interpreter class that refines a call through super() calls the same method with its own arguments (64 delegations); no interpreter class keeps class-level mutable state mutated through instances.'
                ' The Instantiate operand pairing and the memoiser\'s slot budget (shared with C02) are part of \'the serialising interpreter means the same\'.'
                " gamma / claims are fed to every interpreter through the loop shape C03 requires (a flattening generator must yield every axiom once, in order), and the decorator wrapping the pretty interpreter's steps - wherever it is defined - calls the wrapped step with the received arguments and returns its result."
                ' With the arguments Interpreter.pattern passes, the conclusion-only interpreter rebuilds every field of the pattern walked from the same-named field (walk-order/rebuilds-the-pattern: exchanged positive / negative lists publish another pattern).'
                " Each primitive's thunk hands BasicInterpreter's parameters the same-named premises and performs the call it advertises; constructors forward their parameters by name; the instantiation optimiser forwards exactly once for a non-empty map.",
        'note': 'Trusted: python ast; the listed construction sites were confirmed by reading.',
        'design_ref': 'DESIGN.md section 3, C08',
    },
    'C11': {
        'level': 'other',
        'technique': 'decision functions with term leaves (ast paths / MIR paths) compared with the textbook substitution table on all valuations',
        'text': 'apply_esubst, apply_ssubst and instantiate of all Python pattern classes and the Rust apply_esubst / apply_ssubst / '
                'instantiate_internal arms equal, on every valuation of their conditions, the textbook per-constructor definition '
                '(free occurrences only, shadowing at the own binder, deferred on metavariables and pending substitutions, distribution, '
                'pending substitutions resolved at instantiation; Rust additionally the capture checks); the notation node substitutes '
                'in its expansion and instantiates with one merged map over the untouched body. By induction over patterns this yields '
                'the per-constructor laws for all inputs. The composition law as an equation over all maps is not evaluated.'
                ' Instantiate.metavars() (shared with C12) decides which entries of delta are merged.'
                ' The Python half of the C06 soundness table is composed in: the algebra is stated on evar_is_free and its siblings, so an unsound freshness judgement breaks the fresh-variable identity. Methods of the pattern classes outside the pattern API are inlined at their call sites.'
                ' Besides `k not in self.inst`, the only filter allowed on the entries of delta merged by Instantiate.instantiate is that k occurs in the body.',
        'note': 'Trusted: spec/substitution.py; well-formed heads of pending substitutions (C01 S2); python ast, rustc MIR.',
        'design_ref': 'DESIGN.md section 3, C11',
    },
    'C12': {
        'level': 'other',
        'technique': 'dispatch-exhaustiveness lint (isinstance / match on pattern constructors) + delegation-shape rule for the notation node',
        'text': 'Every dispatcher on concrete pattern constructors in pattern.py and the notation libraries (8 sites) expands a notation '
                'node and re-dispatches; the notation node\'s evar_is_free, apply_esubst, apply_ssubst and __eq__ are the operation on the '
                'expansion (non-delegating bodies are decided only through necessary conditions, else the run is analysis-broken); '
                'simplify is body.instantiate(inst). Congruence at every nesting depth beyond these facts is not evaluated. A dispatcher must re-enter itself (or loop) on `x.simplify()`: expanding one level and falling through is a violation, since a notation may be defined as an application of another notation.'
                ' Instantiate.instantiate is ONE merged map over the untouched body (shared with C11); a function defined per loop iteration must not call itself by name.'
                ' `match` statements are read through one pattern compiler (a case is reached under the exact negation of the earlier ones), so a concrete-constructor case placed before the notation case is a violation; a stripping loop counts only if no concrete-constructor test of the subject precedes it.',
        'note': 'Trusted: python ast. __eq__/__hash__ incoherence is reported as advisory only.',
        'design_ref': 'DESIGN.md section 3, C12',
    },
    'C13': {
        'level': 'other',
        'technique': 'type-directed truthiness lint with resolved callees + structural shape rules for match_single',
        'text': 'No successful result of the matching / destructuring API (match_single, match, Notation.matches, unwrap, deconstruct) is '
                'ever tested by truthiness where its type has falsy inhabitants (empty dict, empty tuple, 0): types come from the resolved '
                'callee\'s annotation; plus the shape of match_single (both sides destructured per constructor, bound metavariables '
                'compared not rebound, substitution threaded, notation expanded first). Decides that the empty substitution / id 0 is '
                'never taken for failure; soundness/completeness as equations are not evaluated. `match(equations)` hands every equation to match_single with the accumulated substitution and keeps the result; no equation is skipped and a failure fails the system. The destructuring helpers match_single relies on (unwrap, X.deconstruct) expand every notation level; no function of pattern.py writes a module-level table (matching is a function of its arguments). On every successful path for a constructor each of its components is matched against or compared with the same component of the instance (all-components-matched).'
                ' A new binding is made only under can_be_replaced_by(instance); Notation.matches puts the definition on the pattern side and returns match[i] or MetaVar(i) for every i below the arity.',
        'note': 'Trusted: return annotations; two triaged intended emptiness tests.',
        'design_ref': 'DESIGN.md section 3, C13',
    },
    'C03': {
        'level': 'other',
        'technique': 'who-may-call table over call sites, loop-shape rule, single-writer/def-use rule for the symbol table, bounded-write rule',
        'text': 'Decides the structural clauses on which "published = declared" rests: only the phase drivers call publish_*; the gamma '
                'loop ranges over self._axioms after the imported modules and the claims loop over reversed(self._claims), publishing '
                'interpreter.pattern(<loop variable>); the declared lists are append-only; optimisers neither override nor alter '
                'publishing; the serializer has one symbol table (created in __init__, ids len(table) under a not-in guard, never '
                'shrunk) shared by the three files through one serializer; all 26 writes are unmasked bytes([...]) so ids above 255 '
                'raise. The emitted files are not decoded and compared. A write through a byte-rendering helper of the repository counts as bounded only if the helper is `bytes(<its parameter>)` (a masking helper is a violation); `table.setdefault(name, len(table))` is read as the lookup-or-assign idiom. The transformer base forwards every pattern-construction call (evar .. instantiate_pattern) to the same method of the wrapped interpreter, once, with the same arguments.'
                ' What is published is the declared pattern itself: Interpreter.pattern rebuilds every field from the same-named field (shared with C08). The symbol table may live on an object the serializer keeps, which must then be created once per serializer.'
                ' add_axiom / add_claim / add_proof_expression append what is added exactly when it is new; the memoiser loads a pattern found in memory exactly once. Since round 8 the generator spelling of the gamma theory (imports first through their own generator, then the own axioms) is read; its shallow variant is reported.',
        'note': 'Trusted: python ast; the MAY_PUBLISH table confirmed by reading.',
        'design_ref': 'DESIGN.md section 3, C03',
    },
    'C09': {
        'level': 'other',
        'technique': 'schema typing of the prover glue and of each stage against its contract (inductive step over symbolic path evaluation), shape (refinement) typing of to_cnf, fold-direction rule, linear inversion of the literal numbering, def-use / reaching-store analysis over the saturation loop (ast)',
        'text': 'Five structural clauses. (3) to_cnf returns a term in conjunctive normal form on every path, by induction on its recursion (shape typing LIT < CLAUSE < CNF with the isinstance tests as refinements). (4) The proofs of trivial clauses are folded in the nesting order of clause_conjunctionto_pattern. (1) The glue of prove_tautology is type-checked like a lemma under the contracts of the stages: on '
                'each returning path the proof returned with True concludes literally the pattern, with False its negation. (2) A necessary '
                'clause of completeness of the resolution stage: the nested saturation loop forms every pair (same growing '
                'list in both loops, diagonal guard, resolvents rejoin the list) and no assignment in the inner loop rebinds the outer '
                'loop element on a path that reads it again. The stage lemmas are schema-checked under C10. Equivalence of each normal '
                'form, proof reconstruction and "declines only when contingent" are data-dependent and are NOT decided. (5) Stage contracts, as inductive steps: to_conj_form (12 returning paths), propag_neg (7) and to_cnf (6) return a form with proofs of both implications between the input and the form given that their recursive calls do (negation-flag flips followed, run-time matching transitivity decided on terms); build_proof_from_hint returns the resolvent with a proof of CONJ -> resolvent in each of the four emptiness cases given its parents do; the literal numbering of to_clauses is inverted by id_to_metavar. to_clauses is decided for left operands of 1 to 4 clauses / literals by unrolling its re-association loop in the syntax tree (bounded: longer operands run the same body more often and are not decided). These are the contracts clause (1) assumes of the stages; simplify_clause and merge_clauses stay assumptions. The documented schemas of the lemmas the stages call are checked here too (C10\'s lemma typing, 82 lemmas).'
                ' trivial-clause: is_trivial_clause is a complementary-pair scan (the cardinality idiom only on sets). to_clauses helper loops and map-over-range loops are unrolled with the lengths the stage contract assumes; a stage that leaves the typed subset fails the run instead of being declined.',
        'note': 'Trusted: python ast; the stage contracts as documented in tautology.py. Four clauses; the decision-procedure property as a whole is out of reach of static analysis.',
        'design_ref': 'DESIGN.md section 3, C09',
    },
    'C15': {
        'level': 'other',
        'technique': 'literal-table check + iteration-order (set-typedness) analysis of the numbering loop',
        'text': 'Two structural clauses of the compressed-proof decoder: the letter tables are exactly A..T->1..20 and U..Y->1..5 with '
                'weights 20*5^i; mandatory hypotheses are numbered 1,2,.. from the insertion-ordered list of floating hypotheses '
                '(database order), never from a set (hash-seed dependent) nor merely sorted. The numeric decoding of all step numbers, '
                'Z placement and whitespace layouts are not decided. Labels registered from `text.split(sep)` with an explicit separator must filter empty tokens (the empty list `( )` is legal); where numbers past the label list are resolved (translate.exec_proof) every Z saves and remembers the top unconditionally and number n reloads slot n - len(labels) - 1 (shared with C16). A regular expression that cuts the proof into steps must repeat the high-digit class U-Y without bound before one A-T (read with re\'s parser); hash() / id() is never used as the identity of a term outside __hash__.'
                ' The hypothesis numbering is found in converter helpers and in comprehension form; the number->label table extended with a proof\'s labels is created per proof (label-table-fresh); a decoder written with zip over a place-value table needs a table that reaches 10^6. The digit weights are decided by induction-variable analysis of the decoding loop (constants, pow(5, counter), running products); the set that selects the mandatory hypotheses is <statement>.get_metavariables(), and numbering in the order of another collection of the converter is a violation.'
                ' The decoded number is exactly ls[last letter] plus the weighted high digits (also when the decoder is written in place in the loop over the letters); the letter buffer is emptied exactly on the iterations that close a number; the listed labels continue at len(table) + 1 and advance by one per label.'
                ' A character-scanning label loop hands a label on only at `<letter>.isspace()`; the list of steps given to Proof(..) is made for that proof (steps-fresh-per-proof); digit tables and the decoder may live on an object.'
                ' Every token is recorded (one number per closing letter, one marker per Z with an empty buffer); the three scanning loops of the label list are positioned after `(`, at the first non-blank and at `)` (linear forms), the returned offset is the position after `)`. Since wave 6 the label rules also read the collect-then-number spelling and scans by absolute position, and the digit rules the indexed sum (every high digit is read).',
        'note': 'Trusted: python ast; _floating_patterns is appended in database order.',
        'design_ref': 'DESIGN.md section 3, C15',
    },
    'C18': {
        'level': 'other',
        'technique': 'iteration-order taint (set-typedness inference + consumer classification) over an import-scoped call graph; ambient-state lint',
        'text': 'No hash-seed- or state-dependent value reaches an output: every iteration over a set/frozenset of non-int elements is '
                'consumed order-insensitively (automatic rules or a reasoned triage entry) or is unreachable from the serialisation / '
                'translation entry points; uses of id/hash/directory order/clock/randomness/environment are enumerated and triaged; no '
                'mutable default arguments, no module- or class-level mutable state written from functions, no cache reading instance '
                'state. Byte equality of outputs is never observed. Module-level or class-level instances of repository classes whose methods mutate their own attributes, annotated class-level containers mutated through instances, and sequences extended by a set are violations. A keyed sort (sorted/min/max with key=) over a set is order-sensitive (ties keep set order); locals of methods are typed with the class\'s attribute types. A loop over a set whose iterations only rewrite the table entry of their own element (effect rule) is order-free unless the loop variable is read after the loop. Since round 8: a keyed sort whose key contains the element is a total order; a set used for its truth value only is order-free.',
        'note': 'Trusted: annotations for set-typedness; spec/order_triage.py (9 reasoned entries); dict insertion order.',
        'design_ref': 'DESIGN.md section 3, C18',
    },
    'C16': {
        'level': 'other',
        'technique': 'symbolic stack-effect analysis of the replay loop (linear forms over symbolic lengths, per-call effects derived from the tracker source) against the Metamath pop/push discipline read from the benchmark databases; operand-slot, reuse-index and declaration/load agreement rules (ast)',
        'text': 'One structural clause, a necessary condition of "the emitted proof is accepted" and "the published claim is the image '
                'of the target": translate.exec_proof keeps the tracked stack in step with the Metamath stack. For each of the 21 paths '
                'of the replay loop (Z mark, reuse, app/imp constructors, constructor axioms, floating hypotheses, axioms with and '
                'without antecedents and metavariables, prop-1, prop-2, mp) the net effect on the tracked stack - summed from the '
                'effects of the StatefulInterpreter calls, loops counted as body effect times a symbolic length - equals 1 minus the '
                'number of mandatory hypotheses Metamath pops (read from generation/mm-benchmarks/*.mm for the fixed prelude labels); '
                'operands are read from the slot where Metamath pushed them (get_delta index -(n+1)+i, prop-1/prop-2 keys by unifying '
                'the prelude statement with the axiom schema, implication first for mp, left operand deeper for app/imp); reuse '
                'numbers index saved entries as k - len(labels) - 1; the axiom pattern loaded is the one main() declares; the stack top '
                'is asserted to prove the target before publication; Interpreter.pattern nets +1 on every arm. NOT decided: the '
                'converter\'s images of terms, notations and axioms, nor acceptance of any database (run-time data); proofs using other '
                'proof rules are outside the stated fragment (reported as advisory). The numbering of the target\'s mandatory hypotheses and the label-list tokens are checked with C15\'s rules (the replay resolves the letters through them). get_delta adds exactly one entry per metavariable label on every path; every Axiom / Lemma the converter builds takes its `metavars` from the statement\'s variables, never from the metavariables of the converted pattern (the assumption of the stack rule, checked at its 5 construction sites).'
                ' Rules with antecedents unite their own metavariables with those of every antecedent (floats-from-statement/union), read through converter helpers. The step numbers are decoded with C15\'s digit tables and digit order; the n-ary application of an undeclared constructor is curried over its arguments front to back (curried-in-argument-order); main() constructs the module with the declared axioms and the patterns of all lemmas as claims.'
                ' Essential hypotheses of an axiom are set aside top-first, remembered as (name, proof) of the very stack top, and discharged in the reverse order by load + modus ponens (antecedent-discharge); a label no branch claims may not be passed over silently. The listed labels are numbered consecutively after the hypotheses (shared with C15).'
                " Every term handed to a tracked call in the replay is the stack slot the tracker compares it with (tracker-slots); convert_to_implication puts the first antecedent outermost; the converter's Z marker is the constant exec_proof tests. Since wave 6 the rules read exec_proof with table-driven arms and value-returning local helpers written out; a branch that pushes another propositional axiom than its label names is reported.",
        'note': 'Trusted: tracker effects (decided under C04), prelude statements in the benchmark databases, assumption that the '
                'mandatory floats of a non-prelude label are get_metavars_in_order(label) and its essentials are the antecedents.',
        'design_ref': 'DESIGN.md section 3, C16',
    },
    'C17': {
        'level': 'other',
        'technique': 'visitor/grammar table agreement (ast of Encoder and transformer vs the Lark grammar string), closure / scan-before-emit / single-ordered-pass rules over the slicer (syntax-level path enumeration), dispatch-ends-raising rule',
        'text': 'Printer/parser agreement as necessary conditions of the round trip: every node class the transformer can build has an '
                'explicit Encoder handler (the generic Visitor would print nothing), every structured statement kind gets a distinct '
                'letter, the `$` keywords the Encoder writes are the terminals of the grammar alternative for the same kind, the slicer '
                'keeps and emits hypotheses in insertion order, and its statement-kind dispatch ends in a raising branch (a constant-true '
                'assert there was a genuine defect, now fixed). Slice closure: every statement supporting_database_for_provable emits '
                '(the lemma, its own hypotheses, the named statements) was scanned into the sets the `$c`/`$v` declarations and floating '
                'hypotheses are generated from; the scan and the label set are complete before anything is emitted; declarations come '
                'first and the lemma block last; floating hypotheses leave in one in-order pass over the insertion-ordered container; '
                'set iterations in the slicer are triaged by name. Round-trip identity and re-verification of the compressed proof '
                'are not decided. A `$d` over n variables is recorded as all n(n-1)/2 pairs (the loop headers are evaluated over four abstract variables); the parse transformer, which remembers declared variables, is created per parse and never at import time. Every node class reports the variables of all its term- or statement-valued children (no skipped kinds) - the slicer declares what get_metavariables reports; an optional field with a falsy inhabitant (proof: str | None) is never tested by truthiness in the printer / slicer / parser.'
                ' The constant and variable scans recurse into nested blocks; `$v` is emitted only when the variable set is non-empty (grammar `$v token+`); a slice written as one tuple display is read as the equivalent appends. Every labelled statement is entered into the container of cut antecedents on every path of the scanning loop, whether or not a slice is emitted for it.'
                ' A set iteration in the slicer is order-free only if all it produces in order is a run of `$d` statements (they commute), whatever its spelling; a `$d` restriction is emitted exactly under `pair <= declared variables`.'
                " Every antecedent component a lemma block is taken apart into reaches both the lemma's own slice and the axiom registered for later slices (sibling agreement)."
                ' The small functions the slicer is built from are decided on the values they return (labels between the parentheses, block = antecedents + lemma, registered axiom, notation axiom of a constructor, constant scan); arguments are not exchanged (arguments-by-name); what is needed is never passed over by the emitting pass.'
                ' The printer half: per Encoder method and path, every field of the node is written (unless known empty), tokens are separated by blanks, delimiters come in pairs, `$` is followed by the statement letter, a provable statement gets `$=` (printer-output). Since wave 6: the $c / $v statements are built from the whole collected sets, and notation axioms and syntax dependencies are added for every label of the set. Since round 8: the pass that emits the statements named by the proof is not under a condition.',
        'note': 'Trusted: python ast; the grammar is read from the `syntax` constant of metamath/parser.py.',
        'design_ref': 'DESIGN.md section 3, C17',
    },
    'C19': {
        'level': 'other',
        'technique': 'abstract evaluation of notation definitions (dependency sets) vs statically evaluated format strings; override-set and label agreement',
        'text': 'For all 31 Notation constructions the argument indices the definition depends on are contained in the placeholders of the '
                'format string as the interpreter sees it (f-strings that consume their own {i} are caught; three such notations are '
                'recorded as known findings pinned by K-generated snapshots); loop-built notations couple MetaVar(i) with placeholder i; '
                'Notation.print_instantiation hands every argument, rendered with the caller\'s options, in position and unfiltered to '
                'that format string. '
                'The pretty printer and the serializer override the same 24 methods, each pretty override prints one terminated step '
                'whose word is the opcode written. Injectivity of rendering in general is not decided. Instantiate.instantiate rebuilds the argument map with all stored entries first in stored order and Notation.__call__ stores arguments by position (the renderer is positional); no interpreter wrapper tests the wrapped interpreter for a class that separates the binary serializer from the pretty printer. The serializer writes an instruction on every path of every call (the pretty printer prints a step for every call).'
                ' The memoisation choice does not depend on set iteration order (shared with C18, optimiser modules): binary and pretty files are written by separate processes. The pretty step of a metavariable prints every constraint list that the path conditions do not force empty.'
                " The text printed for a stack entry is the text of that entry: hash(entry) / id(entry) as a cache key is a violation (shared with C15's identity-by-hash). Methods installed from a literal table with setattr are read as methods; an install that is not modelled stops the check (exit 2).",
        'note': 'Trusted: python ast, str.format placeholder syntax. Known findings: equiv, sorted-exists, kore-exists.',
        'design_ref': 'DESIGN.md section 3, C19',
    },
    'C20': {
        'level': 'other',
        'technique': 'typestate / guard-before-effect rule on rewrite_event (ast paths) and allocator-shape rules on ConvertionScope',
        'text': 'rewrite_event registers the claim and proof and advances the configuration only after the raising check that the '
                'left-hand side of the instantiated rule equals the current configuration; claim = instantiated rule, next configuration '
                '= its right-hand side, proof = the rule axiom instantiated with the same substitution; the configuration has two '
                'writers. ConvertionScope allocators are injective and stable (len(table) under a not-in guard, disjoint bases, tables '
                'never shrink); each axiom is converted in a fresh scope cached under its own ordinal and substitutions are converted '
                'in that scope by lookup. Commutation of conversion with substitution and checker acceptance are not decided (the K '
                'modules cannot even be imported here; the analysis is purely syntactic). KSymbol.unwrap_kore_name is the exact inverse of the prefixing in aml_symbol (removeprefix / slice of the prefix length under a startswith guard); the rows of instantiate, load and the publishes (the only calls a K proof makes) are the C02 rows.'
                ' get_proof_hints examines every adjacent pair of trace entries (loop header evaluated over four abstract entries); the configuration is advanced only after the claim and the proof are registered, decided by event order through helper methods.'
                ' The scope tables are distinct objects per scope (no dict.fromkeys(keys, {}) / [[..]] * n sharing).'
                " Every hint of the trace becomes one rewrite step on one proof expression; the rule's axiom is declared before the proof is registered; a hint's configuration before is what the previous step reached and its configuration after is the conversion of the next trace entry (hint-chains-configurations); each Kore connective is converted to its notation with the components in the connective's own order (conversion-order, 13 arms). Since wave 6: a step is built only from a rule event followed by a configuration (class test on the next entry on the yielding path), and the scope cached for an axiom is the one made in the branch of that axiom. Since round 8: every axiom sentence takes exactly one ordinal inside the pass over the sentences, and the axiom lookup reaches every transitively imported module.",
        'note': 'Trusted: python ast.',
        'design_ref': 'DESIGN.md section 3, C20',
    },
}
