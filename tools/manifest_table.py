"""Per-property MANIFEST entries (level, technique, claim text, trusted base)."""

CHECKS = {
    'C06': {
        'level': 'proof',
        'technique': 'per-arm truth-table implication (MIR / ast decision functions vs. soundness table) + structural induction',
        'text': 'Proof by structural induction, discharged arm by arm: every match arm of the Rust e_fresh/s_fresh/positive/negative '
                '(40 arms, read from rustc MIR) and every evar_is_free of the 11 Python pattern classes is extracted as a decision '
                'function and shown, on all valuations of its atoms, to imply the weakest sound condition of its constructor '
                '(including ESubst/SSubst/MetaVar and the notation node). This covers all meta-patterns, variables and '
                'constraint-respecting instantiations, which sampling cannot; what is trusted is the soundness table and the induction.',
        'note': 'Trusted: sa/spec/judgements.py (table 2.1 of DESIGN.md) and the induction argument; rustc MIR and python ast as faithful '
                'renderings of the sources; constraints are enforced at instantiation and well-formedness at construction (decided under C01).',
        'design_ref': 'DESIGN.md section 3, C06; section 2.1',
    },
    'C01': {
        'level': 'other',
        'technique': 'MIR path analysis: minting confinement, guard-on-every-path, capture-guard rule, constraint-check pairing, per-arm soundness tables',
        'text': 'Decides the structural obligations of the rule-induction proof of soundness on the Rust checker, on all paths of rustc MIR: '
                'Proved terms are minted only in rule arms with the rule conclusion as payload; every side condition (MP antecedent, '
                'Generalization freshness, claim equality, well-formedness of Mu/ESubst/SSubst) holds on every path to the push; substitution '
                'never descends under a binder without the capture check of that binder sort; a metavariable is replaced only after its '
                'constraint lists were checked with the judgement of the same name; axiom constants equal the schemas; judgement arms are '
                'sound. Validity in finite models is not evaluated - that quantifier is out of reach of a static argument; what is decided '
                'is every code-level way the induction can fail.',
        'note': 'Trusted: soundness of the matching-logic proof system and the induction; spec tables sa/spec/{axioms,machine,judgements,'
                'substitution}.py; rustc MIR as rendering of lib.rs. Level "other": necessary structural obligations, not a semantic proof.',
        'design_ref': 'DESIGN.md section 3, C01',
    },
    'C05': {
        'level': 'other',
        'technique': 'MIR decision functions equivalent to the transcribed document; opcode-row table comparison; must-be-checked reads',
        'text': 'Arm-by-arm conformance with the documented machine: 46 judgement/well-formedness arms are equivalent on all valuations to '
                'the pseudocode of docs/proof-language.md; each of the 24 implemented opcodes has exactly the documented operand reads, '
                'pops (order and Term kind), side conditions and pushes; unimplemented opcodes and unknown bytes panic; every operand / '
                'stack / claim read has a rejecting branch and the instruction iterator is advanced only by next(); no unsafe; verify runs '
                'the three phases over one state and accepts only with no claim left; substitution/instantiation arms equal the textbook '
                'table. Any per-arm deviation changes acceptance on some byte string, which sampling finds only by luck. Final-state '
                'equality on concrete inputs is not observed.',
        'note': 'Trusted: the transcription of the document in sa/spec/ (the prose is not parsed), rustc MIR, std semantics of '
                'Option::expect/unwrap/?/Vec::pop.',
        'design_ref': 'DESIGN.md section 3, C05',
    },
}
