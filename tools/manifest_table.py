"""Per-property MANIFEST entries (level, technique, claim text, trusted base)."""

CHECKS = {
    'C06': {
        'level': 'proof',
        'technique': 'per-arm truth-table implication (MIR / ast decision functions vs. soundness table) + structural induction',
        'text': 'Proof by structural induction, discharged arm by arm: every match arm of the Rust e_fresh/s_fresh/positive/negative '
                '(40 arms, read from rustc MIR) and every evar_is_free of the 11 Python pattern classes is extracted as a decision '
                'function and shown, on all valuations of its atoms, to imply the weakest sound condition of its constructor '
                '(including ESubst/SSubst/MetaVar and the notation node). This covers all meta-patterns, variables and '
                'constraint-respecting instantiations, which sampling cannot; what is trusted is the soundness table and the induction.',
        'note': 'Trusted: sa/spec/judgements.py (table 2.1 of DESIGN.md) and the induction argument; rustc MIR and python ast as faithful '
                'renderings of the sources; constraints are enforced at instantiation and well-formedness at construction (decided under C01).',
        'design_ref': 'DESIGN.md section 3, C06; section 2.1',
    },
}
